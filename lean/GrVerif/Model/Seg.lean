import GrVerif.Model.Vm
/-!
# The slot heap and the slot-manipulating opcodes   (C03, C04, C05, C02, C19)

The segment is modelled as a **heap**, not as a list: an arena of slot records linked by `next/prev/parent/child/sibling`
indices, exactly as `Segment`/`Slot` link them by pointers, so that a forgotten relink is representable.
Transcribed from `src/Segment.cpp` (`newSlot`, `freeSlot`, `appendSlot`), `src/Slot.cpp` (`child`, `sibling`,
`removeChild`, `setAttr(gr_slatAttTo)`), `src/inc/opcodes.h` (`next`, `insert`, `delete_`, `put_copy`, `assoc`, `attr_set`,
`attr_set_slot`, `temp_copy`), `src/Pass.cpp` (`SlotMap::collectGarbage`) and the `slotat`/`DIE` macros.
Positions, advances and user attributes are not part of this model.
-/
namespace GrVerif.Seg
open GrVerif.Vm

structure Slot where
  next : Option Nat := none
  prev : Option Nat := none
  parent : Option Nat := none
  child : Option Nat := none
  sibling : Option Nat := none
  gid : Nat := 0
  original : Int := 0
  before : Int := 0
  after : Int := 0
  index : Nat := 0
  deleted : Bool := false
  copied : Bool := false
  -- positioning attributes (design units) and the computed origin
  advX : Int := 0
  advY : Int := 0
  shiftX : Int := 0
  shiftY : Int := 0
  attX : Int := 0
  attY : Int := 0
  withX : Int := 0
  withY : Int := 0
  deriving Repr, DecidableEq, Inhabited

/-! field setters (named so that the terms the proofs see stay small) -/
def Slot.setNext (sl : Slot) (v : Option Nat) : Slot := { sl with next := v }
def Slot.setPrev (sl : Slot) (v : Option Nat) : Slot := { sl with prev := v }
def Slot.setParent (sl : Slot) (v : Option Nat) : Slot := { sl with parent := v }
def Slot.setChild (sl : Slot) (v : Option Nat) : Slot := { sl with child := v }
def Slot.setSibling (sl : Slot) (v : Option Nat) : Slot := { sl with sibling := v }
def Slot.setDeleted (sl : Slot) (v : Bool) : Slot := { sl with deleted := v }
def Slot.setCopied (sl : Slot) (v : Bool) : Slot := { sl with copied := v }
def Slot.setBefore (sl : Slot) (v : Int) : Slot := { sl with before := v }
def Slot.setAfter (sl : Slot) (v : Int) : Slot := { sl with after := v }
def Slot.setOriginal (sl : Slot) (v : Int) : Slot := { sl with original := v }
def Slot.setGid (sl : Slot) (v : Nat) : Slot := { sl with gid := v }

structure Seg where
  slots : Array Slot := #[]        -- the arena; a slot's identity is its index
  first : Option Nat := none
  last : Option Nat := none
  free : List Nat := []            -- `m_freeSlots` chain
  numGlyphs : Int := 0
  numChars : Nat := 0
  defaultOriginal : Int := 0
  bufSize : Nat := 1               -- `m_bufSize`: slots are allocated in blocks of this many
  dir : Nat := 0                   -- `m_dir`: bit 0 the requested direction, bit 6 "the slots are currently reversed"
  deriving Repr

/-- `Segment::currdir()`: `((m_dir >> 6) ^ m_dir) & 1` – the direction the slots are in at the moment -/
def Seg.currdir (s : Seg) : Bool := ((s.dir >>> 6) ^^^ s.dir) % 2 = 1
def Seg.setFirst (s : Seg) (v : Option Nat) : Seg := { s with first := v }
def Seg.setLast (s : Seg) (v : Option Nat) : Seg := { s with last := v }
def Seg.addGlyphs (s : Seg) (d : Int) : Seg := { s with numGlyphs := s.numGlyphs + d }
def Seg.get (s : Seg) (i : Nat) : Slot := s.slots.getD i {}
def Seg.upd (s : Seg) (i : Nat) (f : Slot → Slot) : Seg := { s with slots := s.slots.modify i f }

/-- `Segment::newSlot()`: from the free chain, else (growth test) a new block of `bufSize` slots whose first slot is
returned and whose other slots are chained as free -/
def Seg.newSlot (s : Seg) (growthFactor : Nat) : Option (Nat × Seg) :=
  match s.free with
  | i :: rest => some (i, { (s.upd i fun sl => sl.setNext (none)) with free := rest })
  | [] =>
    if s.numGlyphs > (s.numChars * growthFactor : Nat) then none
    else
      let base := s.slots.size
      let n := max s.bufSize 1
      some (base, { s with slots := s.slots ++ Array.replicate n {}, free := (List.range (n - 1)).map (· + base + 1) })

/-- `Slot::sibling(ap)` on the chain starting at `i`; fuel = arena size -/
def sibling (s : Seg) : Nat → Nat → Option Nat → Bool × Seg
  | 0, _, _ => (false, s)
  | fuel + 1, i, ap =>
    if some i = ap then (false, s)
    else if ap = (s.get i).sibling then (true, s)
    else match (s.get i).sibling, ap with
      | none, _ => (true, s.upd i fun sl => sl.setSibling (ap))
      | some _, none => (true, s.upd i fun sl => sl.setSibling (none))
      | some j, some _ => sibling s fuel j ap

/-- `Slot::child(ap)` -/
def child (s : Seg) (i ap : Nat) : Bool × Seg :=
  if i = ap then (false, s)
  else if some ap = (s.get i).child then (true, s)
  else match (s.get i).child with
    | none => (true, s.upd i fun sl => sl.setChild (some ap))
    | some c => sibling s (s.slots.size + 1) c (some ap)

/-- the loop of `Slot::removeChild` over the sibling chain -/
def removeSib (s : Seg) (ap : Nat) : Nat → Option Nat → Bool × Seg
  | 0, _ => (false, s)
  | _ + 1, none => (false, s)
  | fuel + 1, some p =>
    if (s.get p).sibling = some ap then
      let s := s.upd p fun sl => sl.setSibling ((s.get ap).sibling)
      (true, s.upd ap fun sl => sl.setSibling (none))
    else removeSib s ap fuel (s.get p).sibling

/-- `Slot::removeChild(ap)` -/
def removeChild (s : Seg) (i ap : Nat) : Bool × Seg :=
  if i = ap then (false, s) else
  match (s.get i).child with
  | none => (false, s)
  | some c =>
    if c = ap then
      let n := (s.get c).sibling
      let s := s.upd c fun sl => sl.setSibling (none)
      (true, s.upd i fun sl => sl.setChild (n))
    else removeSib s ap (s.slots.size + 1) (some c)

/-- the `while (aSlot->firstChild())` loop of `freeSlot` -/
def detachChildren (s : Seg) (a : Nat) : Nat → Seg
  | 0 => s
  | fuel + 1 =>
    match (s.get a).child with
    | none => s
    | some c =>
      if (s.get c).parent = some a then
        let s := s.upd c fun sl => sl.setParent (none)
        detachChildren (removeChild s a c).2 a fuel
      else detachChildren (s.upd a fun sl => sl.setChild (none)) a fuel

/-- `if (m_parent) { m_parent->removeChild(this); attachTo(NULL); }` -/
def Seg.unparent (seg : Seg) (i : Nat) : Seg :=
  match (seg.get i).parent with
  | some p => ((removeChild seg p i).2).upd i fun sl => sl.setParent none
  | none => seg

/-- `freeSlot`: `if (m_last == aSlot) m_last = aSlot->prev(); if (m_first == aSlot) m_first = aSlot->next();` -/
def Seg.dropEnds (s : Seg) (a : Nat) : Seg :=
  let sa := s.get a
  let s := if s.last = some a then s.setLast sa.prev else s
  if s.first = some a then s.setFirst sa.next else s

/-- `freeSlot`: `if (aSlot->attachedTo()) aSlot->attachedTo()->removeChild(aSlot);` -/
def Seg.unchild (s : Seg) (a : Nat) : Seg :=
  match (s.get a).parent with
  | some p => (removeChild s p a).2
  | none => s

/-- `freeSlot`: `::new (aSlot) Slot(...)`, then the slot is chained in front of the free list -/
def Seg.recycle (s : Seg) (a : Nat) : Seg :=
  { (s.upd a fun _ => { next := s.free.head? }) with free := a :: s.free }

/-- `Segment::freeSlot(aSlot)` -/
def Seg.freeSlot (s : Seg) (a : Nat) : Seg :=
  let s := (s.dropEnds a).unchild a
  (detachChildren s a (s.slots.size + 1)).recycle a

/-- the tail of `Segment::appendSlot`: `if (m_last) m_last->next(aSlot); aSlot->prev(m_last); m_last = aSlot;
if (!m_first) m_first = aSlot;` -/
def Seg.pushBack (s : Seg) (a : Nat) : Seg :=
  let s1 := match s.last with
    | some l => s.upd l fun sl => sl.setNext (some a)
    | none => s
  let s2 := (s1.upd a fun sl => sl.setPrev s.last).setLast (some a)
  if s.first.isNone then s2.setFirst (some a) else s2

/-- what `appendSlot` writes into the new slot -/
def Slot.initFor (sl : Slot) (id gid : Nat) (adv : Int) : Slot :=
  { sl with child := none, gid := gid, original := id, before := id, after := id, advX := adv }

def Slot.setIndex (sl : Slot) (k : Nat) : Slot := { sl with index := k }

/-- `Segment::appendSlot(id, cid, gid, …)` as far as the heap goes -/
def Seg.appendSlot (s : Seg) (id gid : Nat) (growthFactor : Nat) (adv : Int := 0) : Seg :=
  match s.newSlot growthFactor with
  | none => s
  | some (a, s) => (s.upd a fun sl => sl.initFor id gid adv).pushBack a

/-! ## the rule context (`SlotMap`) and the machine registers of an action -/

structure Ctx where
  seg : Seg
  smap : Array (Option Nat)        -- `m_slot_map[MAX_SLOTS+2]` (cell 0, `m_size ≤ MAX_SLOTS` cells, the cell behind them); `smap[n]` of the C++ is cell `n + 1`
  size : Nat                       -- `m_size`
  context : Nat                    -- `m_precontext`
  highwater : Option Nat := none
  highpassed : Bool := false
  maxSize : Int                    -- `m_maxSize`
  dir : Nat := 0
  map : Int                        -- the `map` register as an index into `m_slot_map`
  is : Option Nat                  -- the `is` register
  status : Status := .finished
  growthFactor : Nat := 64
  classes : Array (List Nat) := #[]   -- the linear (output) classes of the Silf class map
  gattr : Array (Array Int) := #[]    -- glyph attributes: `gattr[gid][attr]`
  gadv : Array Int := #[]             -- advance width of each glyph (hmtx), design units
  aBidi : Nat := 3                    -- `Silf::aBidi()`: the glyph attribute that holds the bidi class
  -- ghost state mirroring the GRAPHITE2_VERIF hook of Pass::runGraphite: the worst rule-loop count and its bound, number of reports
  vIter : Nat := 0
  vBound : Nat := 0
  vCalls : Nat := 0
  vExceeded : Bool := false
  deriving Repr

inductive Outcome where
  | cont (c : Ctx)
  | died (c : Ctx)          -- `DIE`
  | fault (what : String)   -- an access outside `m_slot_map` or through a null slot pointer that the C++ does not guard
  deriving Repr

/-! register and bookkeeping updates of the rule context (named so that proofs can project through them) -/
def Ctx.withSeg (c : Ctx) (seg : Seg) : Ctx := { c with seg := seg }
def Ctx.setIs (c : Ctx) (v : Option Nat) : Ctx := { c with is := v }
def Ctx.setMap (c : Ctx) (m : Int) : Ctx := { c with map := m }
def Ctx.setStatus (c : Ctx) (st : Status) : Ctx := { c with status := st }
def Ctx.setMaxSize (c : Ctx) (m : Int) : Ctx := { c with maxSize := m }
def Ctx.setCell (c : Ctx) (k : Nat) (v : Option Nat) : Ctx := { c with smap := c.smap.setIfInBounds k v }
/-- `if (is == smap.highwater()) smap.highpassed(b);` -/
def Ctx.markHighpassed (c : Ctx) (b : Bool) : Ctx := if c.is = c.highwater then { c with highpassed := b } else c
/-- `if (is == smap.highwater()) smap.highwater(v);` (which also clears `highpassed`) -/
def Ctx.moveHighwater (c : Ctx) (v : Option Nat) : Ctx := if c.is = c.highwater then { c with highwater := v, highpassed := false } else c
/-- `if (is->prev()) { is = is->prev(); if (is == smap.highwater()) smap.highpassed(false); }` – the second half: the cursor has
just stepped back to `p`; on the high-water mark it is no longer "passed" -/
def Ctx.backOnto (c : Ctx) (p : Option Nat) : Ctx :=
  match p with
  | some _ => c.markHighpassed false
  | none => c

/-- `slotat(x)`: `none` with the status set when the offset is outside the map -/
def slotat (c : Ctx) (x : Int) : Option Nat × Ctx :=
  let i := c.map + x
  if 0 ≤ i ∧ i < (c.size : Int) + 1 then ((c.smap.getD i.toNat none), c)
  else (none, c.setStatus .slot_offset_out_bounds)

def die (c : Ctx) : Outcome := .died ((c.setIs c.seg.last).setStatus .died_early)

/-- `next` -/
def opNext (c : Ctx) : Outcome :=
  if c.map - 1 ≥ (c.size : Int) then die c else
  match c.is with
  | some i => .cont ((((c.markHighpassed true).setIs (c.seg.get i).next)).setMap (c.map + 1))
  | none => .cont (c.setMap (c.map + 1))

/-- `while (iss && iss->isDeleted()) iss = iss->next();` -/
def skipDeleted (seg : Seg) : Nat → Option Nat → Option Nat
  | 0, iss => iss
  | _, none => none
  | f + 1, some i => if (seg.get i).deleted then skipDeleted seg f (seg.get i).next else some i

/-- `insert`, `iss` null: the new slot goes after the last slot -/
def Seg.linkAtEnd (seg : Seg) (n : Nat) : Seg :=
  match seg.last with
  | some l =>
    let seg := seg.upd l fun sl => sl.setNext (some n)
    let seg := seg.upd n fun sl => (sl.setPrev (some l)).setBefore ((seg.get l).before)
    seg.setLast (some n)
  | none => (seg.setFirst (some n)).setLast (some n)

/-- `insert`, `iss` not null: the new slot goes in front of `iss` -/
def Seg.linkBefore (seg : Seg) (n i : Nat) : Seg :=
  match (seg.get i).prev with
  | some p =>
    let seg := seg.upd p fun sl => sl.setNext (some n)
    seg.upd n fun sl => (sl.setPrev (some p)).setBefore ((seg.get p).after)
  | none =>
    let seg := seg.upd n fun sl => (sl.setPrev none).setBefore ((seg.get i).before)
    seg.setFirst (some n)

/-- `insert`: `newSlot->next(iss)` and the association of the new slot -/
def Seg.finishNew (seg : Seg) (n : Nat) (iss : Option Nat) : Seg :=
  let seg := seg.upd n fun sl => sl.setNext iss
  match iss with
  | some i =>
    let seg := seg.upd i fun sl => sl.setPrev (some n)
    seg.upd n fun sl => (sl.setOriginal ((seg.get i).original)).setAfter ((seg.get i).before)
  | none =>
    (match (seg.get n).prev with
     | some p => seg.upd n fun sl => (sl.setOriginal ((seg.get p).original)).setAfter ((seg.get p).after)
     | none => seg.upd n fun sl => sl.setOriginal seg.defaultOriginal)

/-- the linking part of `insert`: the new slot `n` goes in front of `iss` (at the end when `iss` is null) and takes its
`before/after/original` from its new neighbours -/
def Seg.linkNew (seg : Seg) (n : Nat) (iss : Option Nat) : Seg :=
  (match iss with
   | none => seg.linkAtEnd n
   | some i => seg.linkBefore n i).finishNew n iss

/-- `insert` -/
def opInsert (c : Ctx) : Outcome :=
  let c := c.setMaxSize (c.maxSize - 1)
  if c.maxSize ≤ 0 then die c else
  match c.seg.newSlot c.growthFactor with
  | none => die c
  | some (n, seg) =>
    let iss := skipDeleted seg (seg.slots.size + 1) c.is
    .cont ((((c.markHighpassed false).withSeg ((seg.linkNew n iss).addGlyphs 1)).setIs (some n)).setMap (if c.map ≠ 0 then c.map - 1 else c.map))

/-- `if (p) p->next(v); else seg.first(v);` – the pointer that leads into a slot from the left -/
def Seg.setNextOf (s : Seg) (p : Option Nat) (v : Option Nat) : Seg :=
  match p with
  | some p => s.upd p fun sl => sl.setNext v
  | none => s.setFirst v

/-- `if (n) n->prev(v); else seg.last(v);` – the pointer that leads into a slot from the right -/
def Seg.setPrevOf (s : Seg) (n : Option Nat) (v : Option Nat) : Seg :=
  match n with
  | some n => s.upd n fun sl => sl.setPrev v
  | none => s.setLast v

/-- the relinking of `delete_`: the neighbours of slot `i` (or `first`/`last`) bypass it -/
def Seg.unlink (s : Seg) (i : Nat) : Seg :=
  (s.setNextOf (s.get i).prev (s.get i).next).setPrevOf (s.get i).next (s.get i).prev

/-- slot `i` leaves the attachment tree: out of its parent's child list, its own children become bases
(the code shared by `freeSlot` and `delete_`) -/
def Seg.detach (s : Seg) (i : Nat) : Seg :=
  let s := s.unparent i
  detachChildren s i (s.slots.size + 1)

/-- `delete_` -/
def opDelete (c : Ctx) : Outcome :=
  match c.is with
  | none => die c
  | some i =>
    let si := c.seg.get i
    if si.deleted then die c else
    let seg := ((c.seg.upd i fun sl => sl.setDeleted true).unlink i).detach i
    .cont ((((c.moveHighwater si.next).withSeg (seg.addGlyphs (-1))).setIs (match si.prev with | some p => some p | none => c.is)).backOnto si.prev)

/-- `memcpy(is, ref)` followed by the repairs of the copy's own links and index -/
def Slot.copyFrom (si sr : Slot) : Slot :=
  { sr with child := none, sibling := none, next := si.next, prev := si.prev, index := si.index }

/-- the body of `put_copy`: slot `i` becomes a copy of slot `rf`, attached to the same parent -/
def Seg.copySlot (seg : Seg) (i rf : Nat) : Seg :=
  let sr := seg.get rf
  let seg := seg.upd i fun si => si.copyFrom sr
  match sr.parent with
  | some p =>
    -- `if (is->attachedTo() && (is->attachedTo()->isDeleted() || !is->attachedTo()->child(is))) is->attachTo(NULL);`
    if (seg.get p).deleted then seg.upd i fun sl => sl.setParent none else
    let r := child seg p i
    if r.1 then r.2 else r.2.upd i fun sl => sl.setParent none
  | none => seg

/-- `is->markCopied(false); is->markDeleted(false);` -/
def Seg.unmark (seg : Seg) (i : Nat) : Seg := seg.upd i fun sl => (sl.setCopied false).setDeleted false

/-- `put_copy <slot_ref>` -/
def opPutCopy (c : Ctx) (ref : Int) : Outcome :=
  match c.is with
  | none => .cont c
  | some i =>
    if (c.seg.get i).deleted then .cont c else
    let rc := slotat c ref
    let c := rc.2
    match rc.1 with
    | some rf =>
      if rf ≠ i then
        if (c.seg.get i).parent.isSome ∨ (c.seg.get i).child.isSome then die c
        else .cont (c.withSeg ((c.seg.copySlot i rf).unmark i))
      else .cont (c.withSeg (c.seg.unmark i))
    | none => .cont (c.withSeg (c.seg.unmark i))

/-- one slot reference of `assoc`: the running minimum of `before` and maximum of `after` -/
def assocStep (acc : Int × Int × Ctx) (sr : Int) : Int × Int × Ctx :=
  let rc := slotat acc.2.2 sr
  match rc.1 with
  | some t =>
    let st := rc.2.seg.get t
    (if acc.1 = -1 ∨ st.before < acc.1 then st.before else acc.1, if st.after > acc.2.1 then st.after else acc.2.1, rc.2)
  | none => (acc.1, acc.2.1, rc.2)

/-- `assoc <n> <slot_ref>…` -/
def opAssoc (c : Ctx) (refs : List Int) : Outcome :=
  let r := refs.foldl assocStep (-1, -1, c)
  if r.1 > -1 then
    match r.2.2.is with
    | some i => .cont (r.2.2.withSeg (r.2.2.seg.upd i fun sl => (sl.setBefore r.1).setAfter r.2.1))
    | none => .fault "assoc: store through a null `is`"
  else .cont r.2.2

/-- the walk up the parent chain of the attachment target: number of slots seen, and whether slot `i` is one of them -/
def chainUp (seg : Seg) (i : Nat) : Nat → Option Nat → Nat → Bool → Nat × Bool
  | 0, _, cnt, found => (cnt, found)
  | _, none, cnt, found => (cnt, found)
  | f + 1, some q, cnt, found => chainUp seg i f (seg.get q).parent (cnt + 1) (found || q == i)

/-- the walks down the first-child chain and along the sibling chain of slot `i` -/
def chainDown (seg : Seg) (sel : Slot → Option Nat) : Nat → Option Nat → Nat → Nat
  | 0, _, cnt => cnt
  | _, none, cnt => cnt
  | f + 1, some q, cnt => chainDown seg sel f (sel (seg.get q)) (cnt + 1)

/-- `Slot::setAttr(gr_slatAttTo)` once the target `other` passed the guard: detach from the old parent, refuse chains of
100 or more slots and cycles, then `other->child(this)` -/
def Seg.attach (seg : Seg) (i other : Nat) (withSide : Bool := false) : Seg :=
  let seg := seg.unparent i
  let r := chainUp seg i 200 (some other) 0 false
  let cnt := chainDown seg (·.child) 200 (seg.get i).child r.1
  let cnt := chainDown seg (·.sibling) 200 (seg.get i).sibling cnt
  if cnt < 100 ∧ !r.2 then
    let ch := child seg other i
    if ch.1 then
      let seg := ch.2.upd i fun sl => sl.setParent (some other)
      -- `if ((map.dir() != 0) ^ (idx > subindex)) m_with = Position(advance(), 0); else m_attach = Position(other->advance(), 0);`
      if withSide then seg.upd i fun sl => { sl with withX := sl.advX, withY := 0 }
      else seg.upd i fun sl => { sl with attX := (seg.get other).advX, attY := 0 }
    else seg
  else seg

/-- `Slot::setAttr(seg, gr_slatAttTo, subindex, value, map)` for slot `i` -/
def setAttTo (c : Ctx) (i : Nat) (subindex : Nat) (value : Int) : Ctx :=
  let idx := (value % 65536).toNat                         -- uint16(value)
  if idx < c.size then
    match c.smap.getD (idx + 1) none with
    | none => c
    | some other =>
      if other = i ∨ some other = (c.seg.get i).parent ∨ (c.seg.get other).copied ∨ (c.seg.get other).deleted then c
      else c.withSeg (c.seg.attach i other (decide (c.dir ≠ 0) != decide (idx > subindex)))
  else c

/-- `attr_set <slat>` / `attr_set_slot <slat>` as far as the heap goes (`value` already popped) -/
def opAttrSet (c : Ctx) (slat : Nat) (subindex : Nat) (value : Int) : Outcome :=
  match c.is with
  | none => .fault "attr_set: `is` is null"
  | some i =>
    if slat = 2 then .cont (setAttTo c i subindex value)
    else
      -- `Slot::setAttr` for the positioning attributes this model carries (the value is an int16)
      let set (f : Slot → Slot) : Outcome := .cont (c.withSeg (c.seg.upd i f))
      match slat with
      | 0 => set fun sl => { sl with advX := value }
      | 1 => set fun sl => { sl with advY := value }
      | 3 => set fun sl => { sl with attX := value }
      | 4 => set fun sl => { sl with attY := value }
      | 8 => set fun sl => { sl with withX := value }
      | 9 => set fun sl => { sl with withY := value }
      | 20 => set fun sl => { sl with shiftX := value }
      | 21 => set fun sl => { sl with shiftY := value }
      | _ => .cont c

/-- `Slot::getAttr(seg, slat, 0)` of the current slot for the positioning attributes this model carries (what `attr_add` reads);
0 for a null `is` (the `setAttr` that follows is then reported as a fault) and for the attributes the model does not carry -/
def slotAttr (sl : Slot) (slat : Nat) : Int :=
  match slat with
  | 0 => sl.advX
  | 1 => sl.advY
  | 2 => if sl.parent.isSome then 1 else 0
  | 3 => sl.attX
  | 4 => sl.attY
  | 8 => sl.withX
  | 9 => sl.withY
  | 20 => sl.shiftX
  | 21 => sl.shiftY
  | _ => 0

def curAttr (c : Ctx) (slat : Nat) : Int :=
  match c.is with
  | none => 0
  | some i => slotAttr (c.seg.get i) slat

/-- `Silf::getClassGlyph(cid, index)` for linear classes -/
def classGlyph (c : Ctx) (cid index : Nat) : Nat :=
  match c.classes[cid]? with
  | some l => l.getD index 0
  | none => 0

/-- `Silf::findClassIndex(cid, gid)` for linear classes (`0xFFFF` when absent) -/
def classIndex (c : Ctx) (cid gid : Nat) : Nat :=
  match c.classes[cid]? with
  | some l => (match l.idxOf? gid with | some i => i | none => 65535)
  | none => 65535

/-- `Slot::setGlyph(seg, gid)` as far as this model goes: the glyph id and `m_advance = (glyph advance, 0)`; a glyph id
outside the font gets a zero advance -/
def Slot.setGlyph (sl : Slot) (gadv : Array Int) (gid : Nat) : Slot :=
  { sl with gid := gid, advX := gadv.getD gid 0, advY := 0 }

/-- `put_glyph <class>`: `is->setGlyph(seg.getClassGlyph(output_class, 0))` -/
def opPutGlyph (c : Ctx) (cls : Nat) : Outcome :=
  match c.is with
  | some i => .cont (c.withSeg (c.seg.upd i fun sl => sl.setGlyph c.gadv (classGlyph c cls 0)))
  | none => .fault "put_glyph: `is` is null"

/-- `put_subs <slot_ref> <input class> <output class>` -/
def opPutSubs (c : Ctx) (ref : Int) (icls ocls : Nat) : Outcome :=
  let rc := slotat c ref
  match rc.1 with
  | some sl =>
    (match rc.2.is with
     | some i => .cont (rc.2.withSeg (rc.2.seg.upd i fun s => s.setGlyph rc.2.gadv (classGlyph rc.2 ocls (classIndex rc.2 icls (rc.2.seg.get sl).gid))))
     | none => .fault "put_subs: `is` is null")
  | none => .cont rc.2

/-- `Segment::glyphAttr(gid, attr)`: 0 outside the table -/
def glyphAttr (c : Ctx) (gid attr : Nat) : Int := ((c.gattr[gid]?).bind (·[attr]?)).getD 0

/-- `temp_copy` -/
def opTempCopy (c : Ctx) : Outcome :=
  match c.seg.newSlot c.growthFactor, c.is with
  | some (n, seg), some i =>
    if 0 ≤ c.map ∧ c.map.toNat < c.smap.size then
      .cont ((c.withSeg (seg.upd n fun _ => (seg.get i).setCopied true)).setCell c.map.toNat (some n))
    else .fault "temp_copy: *map outside m_slot_map"
  | _, _ => die c

/-- one cell of `SlotMap::collectGarbage` -/
def gcStep (acc : Ctx × Option Nat) (k : Nat) : Ctx × Option Nat :=
  match acc.1.smap.getD (k + 1) none with
  | some sl =>
    let s := acc.1.seg.get sl
    if s.deleted ∨ s.copied then
      (acc.1.withSeg (acc.1.seg.freeSlot sl),
       if acc.2 = some sl then s.prev.or s.next else acc.2)
    else acc
  | none => acc

/-- the loop of `SlotMap::collectGarbage(aSlot)` -/
def gcCells (c : Ctx) (aSlot : Option Nat) : Ctx × Option Nat :=
  -- `for (s = begin(); s != end() - 1; ++s)`: the last cell of the map is not visited
  (List.range (c.size - 1)).foldl gcStep (c, aSlot)

/-- `if (aSlot && aSlot->isDeleted()) aSlot = aSlot->prev() ? aSlot->prev() : aSlot->next();` -/
def offDeleted (r : Ctx × Option Nat) : Ctx × Option Nat :=
  match r.2 with
  | some d => if (r.1.seg.get d).deleted then (r.1, (r.1.seg.get d).prev.or (r.1.seg.get d).next) else r
  | none => r

/-- `SlotMap::collectGarbage(aSlot)` -/
def collectGarbage (c : Ctx) (aSlot : Option Nat) : Ctx × Option Nat := offDeleted (gcCells c aSlot)

theorem offDeleted_fst (r : Ctx × Option Nat) : (offDeleted r).1 = r.1 := by
  unfold offDeleted; split
  · split <;> rfl
  · rfl

theorem collectGarbage_fst (c : Ctx) (aSlot : Option Nat) : (collectGarbage c aSlot).1 = (gcCells c aSlot).1 := offDeleted_fst _

import GrVerif.Model.Feat
/-!
# cmap lookup, direct and cached   (C13)

Transcribed from `src/TtfUtil.cpp` (`FindCmapSubtable`, `CheckCmapSubtable4/12`, `CmapSubtable4/12Lookup`,
`CmapSubtable4/12NextCodepoint`) and `src/CmapCache.cpp` (`bmp_subtable`, `smp_subtable`, `cache_subtable`, `CachedCmap`,
`DirectCmap`).  The cmap table is a byte buffer; a subtable is an offset into it; `uint16`/`uint32`/`int` widths of the
C++ locals are kept where they matter.
-/
namespace GrVerif.Cmap
open GrVerif
open GrVerif.Feat (be16 be32)

/-- `FindCmapSubtable(pCmap, platform, encoding, length)` with `length = table size` → offset of the subtable -/
def findLoop (t : Buf) (plat enc : Nat) (n : Nat) : Nat → Nat → Except Fault (Option Nat)
  | 0, _ => .ok none
  | fuel + 1, i => do
    if i ≥ n then return none
    let p ← be16 t (4 + 8 * i)
    let e ← be16 t (6 + 8 * i)
    if p = plat ∧ e = enc then
      let offset ← be32 t (8 + 8 * i)
      let length := t.size
      if offset + 2 > length then return none
      let format ← be16 t offset
      if format = 4 then
        if offset + 4 > length then return none
        let sl ← be16 t (offset + 2)
        if i + 1 = n then
          if sl > length - offset then return none
        else
          let nxt ← be32 t (8 + 8 * (i + 1))
          if sl > nxt then return none
      if format = 12 then
        if offset + 6 > length then return none
        let sl ← be32 t (offset + 2)
        if i + 1 = n then
          if sl > length - offset then return none
        else
          let nxt ← be32 t (8 + 8 * (i + 1))
          if sl > nxt then return none
      return some offset
    findLoop t plat enc n fuel (i + 1)

def findSubtable (t : Buf) (plat enc : Nat) : Except Fault (Option Nat) := do
  let n ← be16 t 2
  -- `sizeof(CharacterCodeMap) + 8 * (csuPlatforms - 1) > length` in size_t arithmetic (n = 0 wraps to a small number)
  if n ≥ 1 ∧ 12 + 8 * (n - 1) > t.size then return none
  findLoop t plat enc n n 0

/-- `CheckCmapSubtable4(stbl, end)`; `none` offset = null pointer -/
def check4 (t : Buf) (st : Option Nat) : Except Fault Bool := do
  match st with
  | none => return false
  | some o =>
    let tableLen := t.size - o
    if tableLen < 6 then return false
    if (← be16 t o) ≠ 4 then return false
    if tableLen < 16 then return false
    let length ← be16 t (o + 2)
    if length > tableLen then return false
    if length < 16 then return false
    let nRanges := (← be16 t (o + 6)) / 2
    if nRanges = 0 ∨ length < 16 + 8 * nRanges then return false
    let chEnd ← be16 t (o + 14 + 2 * (nRanges - 1))
    return decide (chEnd = 0xFFFF)

def check12 (t : Buf) (st : Option Nat) : Except Fault Bool := do
  match st with
  | none => return false
  | some o =>
    let tableLen := t.size - o
    if tableLen < 6 then return false
    if (← be16 t o) ≠ 12 then return false
    if tableLen < 28 then return false
    let length ← be32 t (o + 4)
    if length > tableLen then return false
    if length < 28 then return false
    let numGroups ← be32 t (o + 12)
    if numGroups > 0x10000000 ∨ numGroups = 0 ∨ length ≠ 16 + numGroups * 12 then return false
    return true

/-- first subtable in the preference list that passes its check -/
def firstChecked (t : Buf) (chk : Buf → Option Nat → Except Fault Bool) : List (Nat × Nat) → Except Fault (Option Nat)
  | [] => .ok none
  | (p, e) :: rest => do
    let st ← findSubtable t p e
    if ← chk t st then return st else firstChecked t chk rest

def bmpSubtable (t : Buf) : Except Fault (Option Nat) :=
  if t.size = 0 then .ok none else firstChecked t check4 [(3, 1), (0, 3), (0, 2), (0, 1), (0, 0)]
def smpSubtable (t : Buf) : Except Fault (Option Nat) :=
  if t.size = 0 then .ok none else firstChecked t check12 [(3, 10), (0, 4)]

def s16 (x : Nat) : Int := if x < 32768 then x else (x : Int) - 65536

/-- binary search of `endCode[]` in `CmapSubtable4Lookup`: returns the index (in uint16 units from `end_code`) of `pMid` -/
def search4 (t : Buf) (o : Nat) (usv : Nat) : Nat → Nat → Nat → Except Fault (Option Nat)
  | 0, _, _ => .ok none
  | fuel + 1, left, n =>
    if n = 0 then .ok none else do
    let cMid := n / 2
    let mid := left + cMid
    let chEnd ← be16 t (o + 14 + 2 * mid)
    if usv ≤ chEnd then
      if cMid = 0 then return some mid
      let prev ← be16 t (o + 14 + 2 * (mid - 1))
      if usv > prev then return some mid
      search4 t o usv fuel left cMid
    else search4 t o usv fuel (mid + 1) (n - (cMid + 1))

/-- the part of `CmapSubtable4Lookup` after the segment (`pMid`) is chosen -/
def seg4 (t : Buf) (o nSeg usv mid : Nat) : Except Fault Nat := do
  let chEnd ← be16 t (o + 14 + 2 * mid)
  let pm := mid + nSeg + 1                              -- pMid += nSeg + 1
  let chStart ← be16 t (o + 14 + 2 * pm)
  if chEnd ≥ usv ∧ usv ≥ chStart then
    let pm := pm + nSeg
    let idDelta ← be16 t (o + 14 + 2 * pm)
    let pm := pm + nSeg
    let idRangeOffset ← be16 t (o + 14 + 2 * pm)
    if idRangeOffset = 0 then return (idDelta + usv) % 65536
    -- offset in uint16 units from the start of the subtable (`pMid - pTable` = 7 + pm)
    let offset := (usv - chStart) + idRangeOffset / 2 + (7 + pm)
    let length ← be16 t (o + 2)
    if offset * 2 + 1 ≥ length then return 0
    let g ← be16 t (o + 2 * offset)
    return if g ≠ 0 then (g + idDelta) % 65536 else 0
  else return 0

/-- which segment: the range key when given, else the binary search -/
def pick4 (t : Buf) (o nSeg usv rangeKey : Nat) : Except Fault (Option Nat) :=
  if rangeKey ≠ 0 then .ok (some rangeKey) else search4 t o usv (nSeg + 1) 0 nSeg

/-- `CmapSubtable4Lookup(stbl, usv, rangeKey)` -/
def lookup4 (t : Buf) (o : Nat) (usv : Nat) (rangeKey : Nat) : Except Fault Nat := do
  let nSeg := (← be16 t (o + 6)) / 2
  match ← pick4 t o nSeg usv rangeKey with
  | none => return 0
  | some mid => seg4 t o nSeg usv mid

/-- `CmapSubtable4NextCodepoint(stbl, usv, &rangeKey)` → (next code point, new range key) -/
def next4 (t : Buf) (o : Nat) (usv : Nat) (rangeKey : Nat) : Except Fault (Nat × Nat) := do
  let nRange := (← be16 t (o + 6)) / 2
  let startIdx := fun (i : Nat) => o + 14 + 2 * (nRange + 1 + i)
  let endIdx := fun (i : Nat) => o + 14 + 2 * i
  if usv = 0 then return (← be16 t (startIdx 0), 0)
  if usv ≥ 0xFFFF then return (0xFFFF, nRange - 1)
  -- "just in case we have a bad key"
  let rec down (fuel i : Nat) : Except Fault Nat :=
    match fuel with
    | 0 => pure i
    | f + 1 => do
      if i > 0 then
        if (← be16 t (startIdx i)) > usv then down f (i - 1) else pure i
      else pure i
  let rec up (fuel i : Nat) : Except Fault Nat :=
    match fuel with
    | 0 => pure i
    | f + 1 => do
      if i + 1 < nRange then
        if (← be16 t (endIdx i)) < usv then up f (i + 1) else pure i
      else pure i
  let i ← down (rangeKey + 1) rangeKey
  let i ← up (nRange + 1) i
  let nStart ← be16 t (startIdx i)
  let nEnd ← be16 t (endIdx i)
  let prev := if nStart > usv then nStart - 1 else usv
  if nEnd > prev then return (prev + 1, i)
  if i + 1 ≥ nRange then return (0xFFFF, i + 1)
  return (← be16 t (startIdx (i + 1)), i + 1)

/-- `CmapSubtable12Lookup(stbl, usv, rangeKey)` -/
def lookup12Loop (t : Buf) (o usv n : Nat) : Nat → Nat → Except Fault Nat
  | 0, _ => .ok 0
  | fuel + 1, i =>
    if i ≥ n then .ok 0 else do
    let s ← be32 t (o + 16 + 12 * i)
    let e ← be32 t (o + 20 + 12 * i)
    if usv ≥ s ∧ usv ≤ e then
      let g ← be32 t (o + 24 + 12 * i)
      return (g + (usv - s)) % 65536
    lookup12Loop t o usv n fuel (i + 1)

def lookup12 (t : Buf) (o : Nat) (usv : Nat) (rangeKey : Nat) : Except Fault Nat := do
  let n ← be32 t (o + 12)
  lookup12Loop t o usv n (n + 1 - rangeKey) rangeKey

def next12 (t : Buf) (o : Nat) (usv : Nat) (rangeKey : Nat) : Except Fault (Nat × Nat) := do
  let nRange ← be32 t (o + 12)
  let startIdx := fun (i : Nat) => o + 16 + 12 * i
  let endIdx := fun (i : Nat) => o + 20 + 12 * i
  if usv = 0 then return (← be32 t (startIdx 0), 0)
  if usv ≥ 0x10FFFF then return (0x10FFFF, nRange)
  let rec down (fuel i : Nat) : Except Fault Nat :=
    match fuel with
    | 0 => pure i
    | f + 1 => do
      if i > 0 then
        if (← be32 t (startIdx i)) > usv then down f (i - 1) else pure i
      else pure i
  let rec up (fuel i : Nat) : Except Fault Nat :=
    match fuel with
    | 0 => pure i
    | f + 1 => do
      if i + 1 < nRange then
        if (← be32 t (endIdx i)) < usv then up f (i + 1) else pure i
      else pure i
  let i ← down (rangeKey + 1) rangeKey
  let i ← up (nRange + 1) i
  let nStart ← be32 t (startIdx i)
  let nEnd ← be32 t (endIdx i)
  let prev := if nStart > usv then nStart - 1 else usv
  if nEnd > prev then return (prev + 1, i)
  if i + 1 ≥ nRange then return (0x10FFFF, i + 1)
  return (← be32 t (startIdx (i + 1)), i + 1)

/-- `DirectCmap::operator[]` -/
def directGet (t : Buf) (bmp smp : Option Nat) (usv : Nat) : Except Fault Nat :=
  if usv > 0xFFFF then
    match smp with
    | some o => lookup12 t o usv 0
    | none => .ok 0
  else match bmp with
    | some o => lookup4 t o usv 0
    | none => .error (.oob 0 0)          -- null subtable pointer: `operator bool` keeps such a cmap from being used

/-- the cache: code point ↦ glyph for every cached code point (blocks of 256 are allocated on demand and zero filled) -/
abbrev Cache := Array Nat       -- indexed by code point, size 0x110000 or 0x10000

def cacheLoop (nxt : Nat → Nat → Except Fault (Nat × Nat)) (lk : Nat → Nat → Except Fault Nat) (limit : Nat) :
    Nat → Nat → Nat → Nat → Cache → Except Fault Cache
  | 0, _, _, _, c => .ok c
  | fuel + 1, cp, prev, key, c =>
    if cp ≥ limit then .ok c else do
    let g ← lk cp key
    let c := c.setIfInBounds cp g
    let cp' := if cp ≤ prev then prev + 1 else cp         -- "prevent infinite loop"
    -- the bumped code point cannot be reported by `NextCodePoint`: it is looked up and cached here
    let c ← if cp ≤ prev ∧ cp' < limit then (do let g' ← lk cp' 0; pure (c.setIfInBounds cp' g')) else pure c
    let (n, key') ← nxt cp' key
    cacheLoop nxt lk limit fuel n cp' key' c

/-- `cache_subtable<Next, Lookup>(blocks, cst, limit)` -/
def cacheSubtable (nxt : Nat → Nat → Except Fault (Nat × Nat)) (lk : Nat → Nat → Except Fault Nat) (limit : Nat) (c : Cache) :
    Except Fault Cache := do
  let (cp, key) ← nxt 0 0
  cacheLoop nxt lk limit (limit + 2) cp 0 key c

structure CachedCmap where
  bmpOnly : Bool
  cache : Cache

def buildCached (t : Buf) : Except Fault CachedCmap := do
  let bmp ← bmpSubtable t
  let smp ← smpSubtable t
  let bmpOnly := smp.isNone
  let c : Cache := Array.replicate (if bmpOnly then 0x10000 else 0x110000) 0
  let c ← match smp with
    | some o => do
      let c ← cacheSubtable (next12 t o) (lookup12 t o) 0x10FFFF c
      -- the BMP blocks filled from format 12 are dropped: the BMP is defined by the format 4 subtable alone
      let c := (Array.replicate 0x10000 0) ++ c.extract 0x10000 c.size
      -- `cache_subtable` stops short of its limit: the last code point is cached explicitly
      let last ← lookup12 t o 0x10FFFF 0
      pure (if last ≠ 0 then c.setIfInBounds 0x10FFFF last else c)
    | none => pure c
  let c ← match bmp with
    | some o => do
      let c ← cacheSubtable (next4 t o) (lookup4 t o) 0xFFFF c
      let last ← lookup4 t o 0xFFFF 0
      pure (if last ≠ 0 then c.setIfInBounds 0xFFFF last else c)
    | none => pure c
  return ⟨bmpOnly, c⟩

/-- `CachedCmap::operator[]` -/
def cachedGet (m : CachedCmap) (usv : Nat) : Nat :=
  if (m.bmpOnly ∧ usv > 0xFFFF) ∨ usv > 0x10FFFF then 0 else m.cache.getD usv 0

end GrVerif.Cmap

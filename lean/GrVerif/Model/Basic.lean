/-!
# Common vocabulary of the model

Buffers are `Array Nat` (each cell one code unit / byte).  The only way the model touches a
buffer handed to the library is `rd`, which returns `Fault` outside the buffer: an
out-of-range access of the C++ code is an explicit result of the model, not something that is
impossible by construction.
-/
namespace GrVerif

/-- An access outside the memory the caller provided. -/
inductive Fault where
  | oob (idx len : Nat)
  deriving Repr, DecidableEq, Inhabited

abbrev Buf := Array Nat

deriving instance DecidableEq for Except

/-- checked read -/
def rd (b : Buf) (i : Nat) : Except Fault Nat :=
  if h : i < b.size then .ok b[i] else .error (.oob i b.size)

theorem rd_ok {b : Buf} {i : Nat} (h : i < b.size) : rd b i = .ok b[i] := by
  simp [rd, h]

theorem rd_err {b : Buf} {i : Nat} (h : b.size ≤ i) : rd b i = .error (.oob i b.size) := by
  simp [rd, Nat.not_lt.mpr h]

/-- every cell is a byte -/
def IsBytes (b : Buf) : Prop := ∀ i (h : i < b.size), b[i] < 256

/-- every cell is a `w`-bit unit -/
def IsUnits (w : Nat) (b : Buf) : Prop := ∀ i (h : i < b.size), b[i] < 2 ^ w

def Except.isOk {ε α} : Except ε α → Bool
  | .ok _ => true
  | .error _ => false

end GrVerif

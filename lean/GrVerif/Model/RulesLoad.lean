import GrVerif.Model.CodeLoad
/-!
# `Pass::readRules` and the whole of `Pass::readPass`   (C01)

`src/Pass.cpp`.  `readRules`: the rule records (sort key = rule length, pre-context length, the offsets of the rule's constraint and
action code), the tests on them, the program pool `m_progs` that the rules' `Machine::Code`s are laid out in one behind the other
(its size from `estimateCodeDataOut`, the per-rule reservation test, each code's consumption), the status tests, and the rule map.
`readPassAll`: `Pass::readPass` from the first byte to the last – layout (`Model/PassLoad.lean`), the pass constraint, `readRanges`,
`readRules`, `readStates` – in the order of the C++, so that the first refusal is the one the engine reports.

`b` is exactly the bytes of the pass.  Besides reads outside `b`, a `Fault` is a write outside the program pool: while a code is
decoded it writes instruction slots `[free, free + 8·len)` and parameter bytes `[free + 8·len, free + 9·len)` (`_data = _code + len`;
that it stays inside these is `CodeLoad.load_total`), and when it is done it occupies `8·(instructions + 1) + 8·⌈data/8⌉` bytes.
`sizeof(instr)` is 8 (a 64-bit build).  A refusal without an error code (`return false`) is code 0.
-/
namespace GrVerif.Loader
open GrVerif.Gen.Err GrVerif.CodeLoad

/-- the limits the code loader takes from the font: `silf.numClasses()`, `face.glyphs().numAttrs()`, `face.numFeatures()`,
`silf.numUser()` -/
structure FontLimits where
  classes : Nat
  glyfAttrs : Nat
  features : Nat
  numUser : Nat
  deriving Repr, DecidableEq

def FontLimits.toLimits (f : FontLimits) (pre sort : Nat) : Limits :=
  { preContext := pre, ruleLength := sort, classes := f.classes, glyfAttrs := f.glyfAttrs, features := f.features, numUser := f.numUser }

/-- `Machine::Code::estimateCodeDataOut(n_bc, nRules, nSlots)` with `sizeof(instr) = 8` -/
def estimate (nbc nRules nSlots : Nat) : Nat := (nbc + nRules + nSlots) * 8 + nbc

/-- what a loaded program takes from the pool: `((_instr_count+1) + (_data_size + sizeof(instr)-1)/sizeof(instr))*sizeof(instr)` -/
def totalSz (p : Option Loaded) : Nat :=
  match p with
  | none => 0
  | some p => ((p.instrs.length + 1) + (p.dataSize + 7) / 8) * 8

structure RuleRec where
  pre : Nat
  sort : Nat
  acBegin : Nat
  acEnd : Nat
  rcBegin : Nat
  rcEnd : Nat
  action : Option Loaded
  constraint : Option Loaded
  deriving Repr, DecidableEq

/-- loading one code into the pool at `free`: the writes while decoding and the space the result takes must lie inside the pool.
Returns the loader's verdict and the new `free` (`*_out += total_sz` happens only for a program that was accepted and is not empty). -/
def loadInPool (l : Limits) (constraint : Bool) (pt : Nat) (code : List Nat) (free poolSz : Nat) :
    Except Fault (Except Nat (Option Loaded) × Nat) := do
  if code.isEmpty then return (.ok none, free)                 -- `bytecode_begin == bytecode_end`: nothing is touched
  if free + 9 * code.length > poolSz then .error (.read "m_progs")
  match ← CodeLoad.load l constraint pt code with
  | .error s => return (.error s, free)
  | .ok p =>
    if free + totalSz p > poolSz then .error (.read "m_progs")
    return (.ok p, free + totalSz p)

/-- `!code.immutable()` -/
def mutableCode (p : Option Loaded) : Bool :=
  match p with
  | some p => p.delete || p.modify
  | none => false

def slice (b : List Nat) (lo hi : Nat) : List Nat := (b.drop lo).take (hi - lo)

/-- the loop over the rules, last rule first; `n` rules are still to come, `acEnd`/`rcEnd` are where the previous rule's code began -/
def rulesLoop (b : List Nat) (L : PassLayout) (f : FontLimits) (pt : Nat) (poolSz : Nat) :
    Nat → Nat → Nat → Nat → Except Fault (Except Nat (List RuleRec))
  | 0, _, _, _ => .ok (.ok [])
  | n + 1, acEnd, rcEnd, free => do
    let pre ← byteAt b (L.arr.precontext + n)
    let sort ← be16 b (L.arr.sortKeys + n * 2)
    if sort > 63 ∨ pre ≥ sort ∨ pre > L.arr.maxPre ∨ pre < L.arr.minPre then return .error 0
    let oa ← be16 b (L.arr.oActions + n * 2)
    let oc ← be16 b (L.arr.oConstraint + n * 2)
    let acBegin := L.codes.aCode + oa
    let rcBegin := if oc ≠ 0 then L.codes.rcCode + oc else rcEnd
    let acDataEnd := L.codes.aCode + L.codes.acLen
    let rcDataEnd := L.codes.rcCode + L.codes.rcLen
    if acBegin > acEnd ∨ acBegin > acDataEnd ∨ acEnd > acDataEnd ∨ rcBegin > rcEnd ∨ rcBegin > rcDataEnd ∨ rcEnd > rcDataEnd then return .error 0
    if estimate (acEnd - acBegin + (rcEnd - rcBegin)) 2 sort > poolSz - free then return .error 0
    let (ra, free1) ← loadInPool (f.toLimits pre sort) false pt (slice b acBegin acEnd) free poolSz
    let (rc, free2) ← loadInPool (f.toLimits pre sort) true pt (slice b rcBegin rcEnd) free1 poolSz
    match ra with
    | .error s => return .error (s + E_CODEFAILURE)
    | .ok pa =>
      match rc with
      | .error s => return .error (s + E_CODEFAILURE)
      | .ok pc =>
        -- `!r->constraint->immutable()`
        if mutableCode pc then return .error E_MUTABLECCODE
        match ← rulesLoop b L f pt poolSz n acBegin rcBegin free2 with
        | .error e => return .error e
        | .ok rest => return .ok (rest ++ [{ pre, sort, acBegin, acEnd, rcBegin, rcEnd, action := pa, constraint := pc }])

/-- the sum of the sort keys, refusing a rule longer than 63 slots (the loop added by `fix: Pass::readRules refuses over-long rules …`) -/
def sumSorts (b : List Nat) (L : PassLayout) : Nat → Except Fault (Option Nat)
  | 0 => .ok (some 0)
  | n + 1 => do
    let s ← be16 b (L.arr.sortKeys + n * 2)
    if s > 63 then return none
    match ← sumSorts b L n with
    | none => return none
    | some t => return some (t + s)

/-- `Pass::readRules` (the rule map at its end is `readRuleMap`) -/
def readRules (b : List Nat) (L : PassLayout) (f : FontLimits) (pt : Nat) : Except Fault (Except Nat (List RuleRec)) := do
  match ← sumSorts b L L.hdr.numRules with
  | none => return .error 0
  | some totalSlots =>
    let poolSz := estimate (L.codes.acLen + L.codes.rcLen) (2 * L.hdr.numRules) totalSlots
    match ← rulesLoop b L f pt poolSz L.hdr.numRules (L.codes.aCode + L.codes.acLen) (L.codes.rcCode + L.codes.rcLen) 0 with
    | .error e => return .error e
    | .ok rs =>
      -- `moved_progs = prog_pool_free > m_progs ? realloc(…) : 0; if (!moved_progs) E_OUTOFMEM`: a pass whose rules are all empty
      if rs.all (fun r => r.action.isNone && r.constraint.isNone) then return .error 1
      return .ok rs

/-- everything `Pass::readPass` establishes -/
structure PassAll where
  layout : PassLayout
  pconstraint : Option Loaded
  cols : List Nat
  rules : List RuleRec
  ruleMap : List Nat
  tables : Option PassTables
  deriving Repr, DecidableEq

/-- the pass constraint: `Code(true, pcCode, pcCode + len, precontext[0], peek<uint16>(sort_keys), silf, face, PASS_TYPE_UNKNOWN)` -/
def loadPassConstraint (b : List Nat) (L : PassLayout) (f : FontLimits) : Except Fault (Except Nat (Option Loaded)) :=
  if L.arr.pcLen = 0 then .ok (.ok none) else
    match byteAt b L.arr.precontext with
    | .error e => .error e
    | .ok pre =>
      match be16 b L.arr.sortKeys with
      | .error e => .error e
      | .ok sort => CodeLoad.load (f.toLimits pre sort) true 0 (slice b L.codes.pcCode (L.codes.pcCode + L.arr.pcLen))

/-- `Pass::readPass` -/
def readPassAll (b : List Nat) (base : Nat) (collOK : Bool) (f : FontLimits) (pt : Nat) : Except Fault (Except Nat PassAll) := do
  match ← readPassLayout b base collOK with
  | .error e => return .error e
  | .ok L =>
    let pcons ← loadPassConstraint b L f
    match pcons with
    | .error _ => return .error E_OUTOFMEM        -- `e.test(!m_cPConstraint, E_OUTOFMEM) || …`: a code that failed to load is "not a code" first
    | .ok pcv =>
      if L.hdr.numRules = 0 then return .ok { layout := L, pconstraint := pcv, cols := [], rules := [], ruleMap := [], tables := none }
      match ← readRanges L.arr.numGlyphs L.hdr.numColumns ((b.drop L.arr.ranges).take (L.hdr.numRanges * 6)) L.hdr.numRanges with
      | none => return .error E_BADRANGE
      | some cols =>
        match ← readRules b L f pt with
        | .error e => return .error e
        | .ok rules =>
          match ← readRuleMap b L with
          | .error e => return .error e
          | .ok rm =>
            match ← readStates b L with
            | .error e => return .error e
            | .ok T => return .ok { layout := L, pconstraint := pcv, cols, rules, ruleMap := rm, tables := some T }

end GrVerif.Loader

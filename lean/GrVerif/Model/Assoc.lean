import GrVerif.Model.Basic
/-!
# `Segment::associateChars` (C05)

Transcribed from `src/Segment.cpp` on the slot stream taken as a list (the function only follows `next` from `m_first`):
slot `k` of the list has `index k` and carries `(before, after)`; a char-info carries `(before, after)`.
An access `charinfo(j)` outside `[0, numChars)` – which the C++ does not guard – sets the `fault` flag.
-/
namespace GrVerif.Assoc

structure CI where
  before : Int := -1
  after : Int := -1
  deriving Repr, DecidableEq, Inhabited

def getC (cs : List CI) (a : Int) : Option CI := if a < 0 then none else cs[a.toNat]?

/-- second loop, inner `for (j = before; j <= after; ++j)`: `fuel` = remaining range length -/
def cover (i : Int) : Nat → Int → List CI → Bool → List CI × Bool
  | 0, _, cs, f => (cs, f)
  | fuel + 1, j, cs, f =>
    match getC cs j with
    | none => (cs, true)
    | some c =>
      let c := if c.before = -1 ∨ i < c.before then { c with before := i } else c
      let c := if c.after < i then { c with after := i } else c
      cover i fuel (j + 1) (cs.set j.toNat c) f

/-- second loop over the stream: `i` is the running slot index -/
def loop2 : List (Int × Int) → Int → List CI → Bool → List CI × Bool
  | [], _, cs, f => (cs, f)
  | (b, a) :: rest, i, cs, f =>
    if b < 0 then loop2 rest (i + 1) cs f
    else
      let r := cover i (a - b + 1).toNat b cs f
      loop2 rest (i + 1) r.1 r.2

/-- `for (a = s->after() + 1; a < offset + numChars && charinfo(a)->after() < 0; ++a) charinfo(a)->after(s->index());` -/
def fwd (n i : Int) : Nat → Int → List CI → Bool → Int × List CI × Bool
  | 0, a, cs, f => (a, cs, f)
  | fuel + 1, a, cs, f =>
    if a < n then
      match getC cs a with
      | none => (a, cs, true)
      | some c => if c.after < 0 then fwd n i fuel (a + 1) (cs.set a.toNat { c with after := i }) f else (a, cs, f)
    else (a, cs, f)

/-- `for (a = s->before() - 1; a >= offset && charinfo(a)->before() < 0; --a) charinfo(a)->before(s->index());` -/
def bwd (i : Int) : Nat → Int → List CI → Bool → Int × List CI × Bool
  | 0, a, cs, f => (a, cs, f)
  | fuel + 1, a, cs, f =>
    if a ≥ 0 then
      match getC cs a with
      | none => (a, cs, true)
      | some c => if c.before < 0 then bwd i fuel (a - 1) (cs.set a.toNat { c with before := i }) f else (a, cs, f)
    else (a, cs, f)

/-- third loop over the stream -/
def loop3 (n : Int) : List (Int × Int) → Int → List CI → Bool → List (Int × Int) × List CI × Bool
  | [], _, cs, f => ([], cs, f)
  | (b, a) :: rest, i, cs, f =>
    let r := fwd n i (cs.length + 1) (a + 1) cs f
    let a' := r.1 - 1
    let q := bwd i (cs.length + 1) (b - 1) r.2.1 r.2.2
    let b' := q.1 + 1
    let t := loop3 n rest (i + 1) q.2.1 q.2.2
    ((b', a') :: t.1, t.2.1, t.2.2)

/-- the closing loop: a character reached from one side only takes both ends from that side -/
def closeEnds (c : CI) : CI :=
  let c := if c.before < 0 then { c with before := c.after } else c
  if c.after < 0 then { c with after := c.before } else c

/-- `Segment::associateChars(0, n)` on a stream of `(before, after)` pairs -/
def associateChars (n : Nat) (slots : List (Int × Int)) : List (Int × Int) × List CI × Bool :=
  let cs := List.replicate n ({} : CI)
  let r2 := loop2 slots 0 cs false
  let r3 := loop3 n slots 0 r2.1 r2.2
  (r3.1, r3.2.1.map closeEnds, r3.2.2)

end GrVerif.Assoc

import GrVerif.Model.Seg
/-!
# Running a rule's action code on the slot heap

`decode` splits action bytecode into instructions with their operand bytes (sizes from the regenerated `opcodeTable`);
`analyse` transcribes `decoder::analyse_opcode` / `apply_analysis` (`src/Code.cpp`): which `TEMP_COPY` instructions the
loader inserts; `runAction` is `Machine::run` for the scalar opcodes (delegated to the regenerated bodies of `Gen.Vm`)
plus the slot-manipulating opcodes of `Model/Seg.lean`; `doAction` adds what `Pass::doAction` / `findNDoRule` do around
it (`*map = is`, `collectGarbage`).  The loader's acceptance tests for these opcodes are not modelled: the
correspondence harness only runs programs the real loader accepted.
-/
namespace GrVerif.Action
open GrVerif.Vm GrVerif.Seg GrVerif.Gen.Vm

abbrev Instr := Nat × List Nat

def decode : Nat → List Nat → Option (List Instr)
  | 0, _ => some []
  | _ + 1, [] => some []
  | fuel + 1, opc :: rest =>
    match opcodeTable[opc]? with
    | none => none
    | some (_, psz, _, _) =>
      let n := if psz = 255 then (rest.headD 0) + 1 else psz
      if n > rest.length then none else
      match decode fuel (rest.drop n) with
      | none => none
      | some is => some ((opc, rest.take n) :: is)

def s8 (b : Nat) : Int := if b < 128 then b else (b : Int) - 256

structure An where
  slotref : Int := 0
  changed : List Int := []       -- context indices flagged `changed`
  referenced : List Int := []
  codeRef : List (Int × Nat) := [(0, 0)]     -- context index ↦ instruction index at which its code starts
  count : Nat := 0               -- `_code._instr_count`
  maxRef : Int := 0              -- `_max_ref`
  deletes : Bool := false

/-- `decoder::analyse_opcode` for action code -/
def analyseOp (a : An) (i : Instr) : An :=
  let (opc, ps) := i
  let arg (k : Nat) : Int := s8 (ps.getD k 0)
  let inR (x : Int) := 0 ≤ x ∧ x < 256
  let bump (a : An) (x : Int) : An := if x + a.slotref > a.maxRef then { a with maxRef := x + a.slotref } else a
  let setChanged (a : An) (x : Int) := if inR (x + a.slotref) then bump { a with changed := (x + a.slotref) :: a.changed } x else a
  let setRef (a : An) (x : Int) := if inR (x + a.slotref) then bump { a with referenced := (x + a.slotref) :: a.referenced } x else a
  let setNoref (a : An) (x : Int) := if inR (x + a.slotref) then bump a x else a
  let a := match opc with
    | 32 => { a with deletes := true }                                   -- DELETE
    | 33 => setChanged a 0                                               -- ASSOC
    | 28 | 59 => setChanged a 0                                          -- PUT_GLYPH(_8BIT_OBS)
    | 25 | 27 =>                                                          -- NEXT, COPY_NEXT: `_contexts[++_slotref] = context(count+1)` (fresh flags)
      { a with slotref := a.slotref + 1, codeRef := (a.slotref + 1, a.count + 1) :: a.codeRef,
               changed := a.changed.filter (· ≠ a.slotref + 1), referenced := a.referenced.filter (· ≠ a.slotref + 1) }
    | 31 => if a.slotref ≥ 0 then { a with slotref := a.slotref - 1 } else a     -- INSERT
    | 29 | 56 => setRef (if arg 0 ≠ 0 then setChanged (setChanged a 0) 0 else setChanged a 0) (arg 0)   -- PUT_SUBS(_8BIT_OBS)
    | 30 => setRef (if arg 0 ≠ 0 then setChanged a 0 else a) (arg 0)     -- PUT_COPY
    | 41 | 40 | 42 | 44 | 45 | 46 | 43 | 66 => setRef a (arg 1)          -- PUSH_*_ATTR / METRIC / FEAT, SET_FEAT
    | 61 | 60 => setRef a (arg 2)                                        -- PUSH_(ATT_TO_)GLYPH_ATTR
    | 35 | 36 | 37 | 38 | 39 | 51 | 52 | 53 => setNoref a 0              -- (I)ATTR_SET/ADD/SUB(_SLOT)
    | _ => a
  { a with count := a.count + 1 }

/-- `apply_analysis`: positions (in the final instruction list) at which a `TEMP_COPY` is inserted -/
def maxRefOf (is : List Instr) : Nat := ((is.foldl analyseOp {}).maxRef % 256).toNat

def tempCopies (is : List Instr) : List Nat × Bool :=
  let a := is.foldl analyseOp {}
  let ctxs := (List.range a.slotref.toNat).filter (fun (c : Nat) => (a.changed.contains (Int.ofNat c)) && (a.referenced.contains (Int.ofNat c)))
  let refOf (c : Nat) : Nat := ((a.codeRef.find? (fun p => p.1 = Int.ofNat c)).map (·.2)).getD 0
  ((ctxs.zipIdx.map fun (c, k) => refOf c + k), a.deletes || !ctxs.isEmpty)

def insertTemps (is : List Instr) : List Instr × Bool :=
  let (ps, dl) := tempCopies is
  (ps.foldl (fun acc p => acc.take p ++ [(67, [])] ++ acc.drop p) is, dl)

structure St where
  vm : Vm
  ctx : Ctx

inductive End where
  | normal (s : St)
  | fault (what : String)

/-- how a slot opcode's outcome continues the run: the parameter pointer moves on; `DIE` sets the status and `EXIT(1)` pushes 1 -/
def withCtx (vm : Vm) (o : Outcome) (dpAdd : Nat) : Sum St End :=
  match o with
  | .cont c => .inl { vm := { vm with dp := vm.dp + dpAdd }, ctx := c }
  | .died c =>
    (match push 1 { vm with status := .died_early } with
     | .ok _ vm' => .inr (.normal { vm := vm', ctx := c })
     | .stop _ _ => .inr (.fault "stack"))
  | .fault w => .inr (.fault w)

/-- one instruction -/
def stepInstr (s : St) (i : Instr) : Sum St End :=
  let (opc, ps) := i
  let arg (k : Nat) : Int := s8 (ps.getD k 0)
  match opc with
  | 25 | 27 => withCtx s.vm (opNext s.ctx) 0
  | 31 => withCtx s.vm (opInsert s.ctx) 0
  | 32 => withCtx s.vm (opDelete s.ctx) 0
  | 30 => withCtx s.vm (opPutCopy s.ctx (arg 0)) 1
  | 33 => withCtx s.vm (opAssoc s.ctx ((ps.drop 1).map s8)) ps.length
  | 67 => withCtx s.vm (opTempCopy s.ctx) 0
  | 59 => withCtx s.vm (opPutGlyph s.ctx ((ps.getD 0 0) * 256 + ps.getD 1 0)) 2
  | 56 => withCtx s.vm (opPutSubs s.ctx (arg 0) ((ps.getD 1 0) * 256 + ps.getD 2 0) ((ps.getD 3 0) * 256 + ps.getD 4 0)) 5
  | 41 =>                                                   -- PUSH_GLYPH_ATTR_OBS <attr> <slot_ref>: nothing is pushed through a null slot
    let rc := slotat s.ctx (arg 1)
    (match rc.1 with
     | some sl =>
       (match push (glyphAttr rc.2 (rc.2.seg.get sl).gid (ps.getD 0 0)) { s.vm with dp := s.vm.dp + 2 } with
        | .ok _ vm => .inl { vm := vm, ctx := rc.2 }
        | .stop _ _ => .inr (.fault "stack"))
     | none => .inl { vm := { s.vm with dp := s.vm.dp + 2 }, ctx := rc.2 })
  | 60 =>                                                   -- PUSH_GLYPH_ATTR <attr hi> <attr lo> <slot_ref>
    let rc := slotat s.ctx (arg 2)
    (match rc.1 with
     | some sl =>
       (match push (glyphAttr rc.2 (rc.2.seg.get sl).gid ((ps.getD 0 0) * 256 + ps.getD 1 0)) { s.vm with dp := s.vm.dp + 3 } with
        | .ok _ vm => .inl { vm := vm, ctx := rc.2 }
        | .stop _ _ => .inr (.fault "stack"))
     | none => .inl { vm := { s.vm with dp := s.vm.dp + 3 }, ctx := rc.2 })
  | 40 =>                                                   -- PUSH_SLOT_ATTR <slat> <slot_ref>: `getAttr(slat, 0)` of that slot
    let rc := slotat s.ctx (arg 1)
    (match rc.1 with
     | some sl =>
       (match push (slotAttr (rc.2.seg.get sl) (ps.getD 0 0)) { s.vm with dp := s.vm.dp + 2 } with
        | .ok _ vm => .inl { vm := vm, ctx := rc.2 }
        | .stop _ _ => .inr (.fault "stack"))
     | none => .inl { vm := { s.vm with dp := s.vm.dp + 2 }, ctx := rc.2 })
  | 35 =>                                                   -- ATTR_SET <slat>: value popped
    (match pop s.vm with
     | .ok v vm => (match opAttrSet s.ctx (ps.getD 0 0) 0 (i16 v) with
        | .cont c => .inl { vm := { vm with dp := vm.dp + 1 }, ctx := c }
        | .died c => .inr (.normal { vm := vm, ctx := c })
        | .fault w => .inr (.fault w))
     | .stop _ _ => .inr (.fault "stack"))
  | 36 =>                                                   -- ATTR_ADD <slat>: `setAttr(slat, 0, int32(val + getAttr(slat, 0)))`
    (match pop s.vm with
     | .ok v vm => (match opAttrSet s.ctx (ps.getD 0 0) 0 (i16 (i32 (v + curAttr s.ctx (ps.getD 0 0)))) with
        | .cont c => .inl { vm := { vm with dp := vm.dp + 1 }, ctx := c }
        | .died c => .inr (.normal { vm := vm, ctx := c })
        | .fault w => .inr (.fault w))
     | .stop _ _ => .inr (.fault "stack"))
  | 37 =>                                                   -- ATTR_SUB <slat>: `setAttr(slat, 0, int32(getAttr(slat, 0) - val))`
    (match pop s.vm with
     | .ok v vm => (match opAttrSet s.ctx (ps.getD 0 0) 0 (i16 (i32 (curAttr s.ctx (ps.getD 0 0) - v))) with
        | .cont c => .inl { vm := { vm with dp := vm.dp + 1 }, ctx := c }
        | .died c => .inr (.normal { vm := vm, ctx := c })
        | .fault w => .inr (.fault w))
     | .stop _ _ => .inr (.fault "stack"))
  | 38 =>                                                   -- ATTR_SET_SLOT <slat>: value + map offset for attach.to
    (match pop s.vm with
     | .ok v vm =>
       let slat := ps.getD 0 0
       let offset : Int := if slat = 2 then s.ctx.map - 1 else 0
       -- `subindex` is a uint8 parameter: an offset of -1 (map in front of the slot map after an insert) arrives as 255
       (match opAttrSet s.ctx slat (offset % 256).toNat (i16 (i32 (v + offset))) with
        | .cont c => .inl { vm := { vm with dp := vm.dp + 1 }, ctx := c }
        | .died c => .inr (.normal { vm := vm, ctx := c })
        | .fault w => .inr (.fault w))
     | .stop _ _ => .inr (.fault "stack"))
  | 28 => withCtx s.vm (opPutGlyph s.ctx (ps.getD 0 0)) 1                               -- PUT_GLYPH_8BIT_OBS <class>
  | 29 => withCtx s.vm (opPutSubs s.ctx (arg 0) (ps.getD 1 0) (ps.getD 2 0)) 3            -- PUT_SUBS_8BIT_OBS <slot_ref> <in class> <out class>
  | _ =>
    match scalarOp opc with
    | none => .inr (.fault "opcode not modelled")
    | some op =>
      match op s.vm with
      | .ok () vm => .inl { s with vm := vm }
      | .stop .exited vm => .inr (.normal { s with vm := vm })
      | .stop (.stackFault _) _ => .inr (.fault "stack")
      | .stop (.dataFault _) _ => .inr (.fault "data")

def runLoop : List Instr → St → End
  | [], s => .normal s
  | i :: rest, s =>
    match stepInstr s i with
    | .inr e => e
    | .inl s' => if continues (s'.vm.sp - STACK_GUARD) then runLoop rest s' else .normal s'

/-- `Pass::doAction`: `smap.highpassed(false)`, and the machine's `map` register starts at `smap[context]` -/
def startCtx (ctx : Ctx) : Ctx := { ctx with highpassed := false, map := (ctx.context : Int) + 1 }

/-- `is = *__map` -/
def enterCtx (ctx : Ctx) : Ctx := ctx.setIs (ctx.smap.getD ctx.map.toNat none)

/-- a failed run: `smap.highwater(0)` -/
def _root_.GrVerif.Seg.Ctx.clearHighwater (c : Ctx) : Ctx := { c with highwater := none, highpassed := false }

/-- `*__map = is` -/
def _root_.GrVerif.Seg.Ctx.storeIs (c : Ctx) : Ctx := c.setCell c.map.toNat c.is

/-- what follows the interpreter loop: `*map = is`, the machine's epilogue, and the garbage collection of `findNDoRule` -/
def finishAction (s : St) (deletes : Bool) : Except String (Int × Status × Option Nat × Ctx) :=
  if ¬ (0 ≤ s.ctx.map ∧ s.ctx.map.toNat < s.ctx.smap.size) then .error "*map = is outside m_slot_map" else
  let c := s.ctx.storeIs
  match epilogue { s.vm with status := if c.status ≠ .finished then c.status else s.vm.status } with
  | .error _ => .error "stack"
  | .ok rs =>
    if rs.2 ≠ .finished then .ok (rs.1, rs.2, none, c.clearHighwater)
    else
      let slotOut := c.smap.getD c.map.toNat none
      if deletes then
        let g := collectGarbage c slotOut
        .ok (rs.1, rs.2, g.2, g.1)
      else .ok (rs.1, rs.2, slotOut, c)

/-- `Pass::doAction` + the garbage collection of `findNDoRule`: returns (ret, status, slot_out, final context) -/
def doAction (is : List Instr) (deletes : Bool) (maxRef : Nat) (data : List Nat) (ctx : Ctx) : Except String (Int × Status × Option Nat × Ctx) :=
  let ctx := startCtx ctx
  -- `Code::run`: the furthest slot the code refers to must be in the map
  if ctx.size ≤ maxRef + ctx.context ∨ (ctx.smap.getD (maxRef + ctx.context + 1) none).isNone then
    .ok (1, .slot_offset_out_bounds, none, ctx.clearHighwater) else
  match runLoop is { vm := initVm data, ctx := enterCtx ctx } with
  | .fault w => .error w
  | .normal s => finishAction s deletes

end GrVerif.Action

import GrVerif.Model.SilfLoad
import GrVerif.Model.GlyphLoad
import GrVerif.Model.Feat
/-!
# `gr_make_face`: the loader as a whole, over the five Graphite tables   (C01)

`src/gr_face.cpp` `load_face`, `src/Face.cpp` `Face::readGlyphs` / `readFeatures` / `readGraphite`: the order in which the tables are
read and what each stage hands to the next – the glyph cache gives the Silf loader its glyph count, attribute count and whether there
are glyph boxes; the feature map gives it the number of features; the class map of a sub-table gives the code loader its class count.

The five tables are the bytes handed out for `Silf`, `Gloc`, `Glat`, `Feat`, `Sill`.  Not part of this model (parameters): what
`head`/`hhea`/`hmtx`/`maxp`/`loca`/`glyf`/`cmap` contribute – the glyph count of `maxp` is a number, and that those tables are
acceptable is the caller's premise (the correspondence uses the intact tables of a shipped font for them).  `Face::Table` hands out no
table shorter than four bytes (`TtfUtil::CheckTable`), and decompresses `Silf`/`Glat` first when they say so (C14): the tables here are
what comes out of that.
-/
namespace GrVerif.Loader

/-- what the public API can tell about a face that loaded -/
structure FaceSummary where
  numGlyphs : Nat
  numFeatures : Nat          -- all of them (`Face::numFeatures`)
  numLanguages : Nat
  silfs : List SilfTable
  deriving Repr

def toBuf (b : List Nat) : Buf := b.toArray

/-- `load_face(face, options)`: `none` = `gr_make_face*` returns NULL -/
def loadFace (silf gloc glat feat sill : List Nat) (numGlyphsGraphics : Nat) (preload : Bool) : Except (Sum Fault GrVerif.Fault) (Option FaceSummary) := do
  -- `Face::Table silf(face, Tag::Silf, 0x00050000); if (!silf) return false;`
  if silf.length < 4 then return none
  -- `readGlyphs`: the glyph cache (glyph 0 must load; with `gr_face_preloadGlyphs` every glyph must)
  match (glyphCache gloc glat numGlyphsGraphics preload []).mapError Sum.inl with
  | .error e => .error e
  | .ok none => return none
  | .ok (some gc) =>
    -- `readFeatures`
    match (Feat.readFeats (toBuf feat)).mapError Sum.inr with
    | .error e => .error e
    | .ok none => return none
    | .ok (some fm) =>
      match (Feat.readSill (toBuf sill) fm).mapError Sum.inr with
      | .error e => .error e
      | .ok none => return none
      | .ok (some sm) =>
        -- `readGraphite(silf)`
        match (readSilfTable silf gc.numGlyphs gc.numAttrs gc.hasBoxes fm.feats.length).mapError Sum.inl with
        | .error e => .error e
        | .ok (.error _) => return none
        | .ok (.ok ts) =>
          -- `return havePasses`
          if ts.any (fun t => t.fixed.numPasses ≠ 0) then
            return some { numGlyphs := gc.numGlyphs, numFeatures := fm.feats.length, numLanguages := sm.langs.length, silfs := ts }
          else return none

end GrVerif.Loader

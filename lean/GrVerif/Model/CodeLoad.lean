import GrVerif.Gen.Vm
import GrVerif.Gen.Enums
import GrVerif.Model.PassLoad
/-!
# The code loader: `Machine::Code::Code` and its `decoder`   (C01, C02)

`src/Code.cpp`: `decoder::load` (the loop over the bytecode), `validate_opcode` (is the opcode known, implemented for this kind
of code, do its parameters end before the end of the bytecode), `fetch_opcode` (the per-opcode tests on stack depth, slot
references, class / attribute / feature numbers, and the bookkeeping of the output position), `analyse_opcode` (which slots are
changed and referenced), `emit_opcode` (instruction and parameter bytes; a context item is decoded as a nested range), then
the end tests of the constructor and `apply_analysis` (the `TEMP_COPY` insertions).

The bytecode is `bc`, exactly the bytes `[bytecode_begin, bytecode_end)`; every read of it is checked (`Fault`).  The 256-entry
array `_contexts` is a list and every write to it is checked.  The nested `load` of a context item is flattened: nesting is at
most one deep (a nested context item is refused), so the loop carries "the context item that is open" instead of recursing.
A failing test does not end `fetch_opcode` – later tests of the same opcode still run and the last failure is the status the
code keeps – so the tests of one opcode are a list evaluated as a whole (`lastFail`).

Opcode numbers, parameter sizes and which opcodes exist for actions / constraints come from the regenerated tables
(`Gen/Vm.lean`); the numeric literals below are checked against `opcodeEnum` at the end of the file.
-/
namespace GrVerif.CodeLoad
open GrVerif GrVerif.Gen.Vm GrVerif.Loader
abbrev Fault := GrVerif.Loader.Fault

/-- `status_t` of `Machine::Code` (regenerated numbers) -/
def S_invalid_opcode : Nat := Gen.Enums.S_invalid_opcode
def S_unimplemented : Nat := Gen.Enums.S_unimplemented_opcode_used
def S_out_of_range : Nat := Gen.Enums.S_out_of_range_data
def S_jump_past_end : Nat := Gen.Enums.S_jump_past_end
def S_arguments_exhausted : Nat := Gen.Enums.S_arguments_exhausted
def S_missing_return : Nat := Gen.Enums.S_missing_return
def S_nested_context : Nat := Gen.Enums.S_nested_context_item
def S_underfull_stack : Nat := Gen.Enums.S_underfull_stack

/-- `decoder::limits` -/
structure Limits where
  preContext : Nat      -- uint8
  ruleLength : Nat      -- uint16
  classes : Nat
  glyfAttrs : Nat
  features : Nat
  numUser : Nat         -- a byte
  deriving Repr, DecidableEq

def slatMax : Nat := Gen.Enums.gr_slatMax
def slatUserDefn : Nat := Gen.Enums.gr_slatUserDefn
def kgmetDescent : Nat := Gen.Enums.kgmetDescent
def numContexts : Nat := Gen.Enums.NUMCONTEXTS
/-- `PASS_TYPE_POSITIONING` of `enum passtype` (unknown 0, line-break 1, substitution 2, positioning 3, justification 4) -/
def passPositioning : Nat := Gen.Enums.PASS_TYPE_POSITIONING

/-- `limits::attrid[a]`: how many indices slot attribute `a` has (the regenerated initialiser; what it does not mention is 0) -/
def attridLimit (numUser : Nat) (a : Nat) : Nat :=
  match Gen.Enums.attridInit[a]? with
  | some (some v) => v
  | some none => numUser
  | none => 0

structure Cx where
  changed : Bool := false
  referenced : Bool := false
  codeRef : Nat := 0
  deriving Repr, DecidableEq

/-- the context item that is being decoded: where it ends, where the enclosing range ends, the instruction count when it
started, and its two parameter bytes -/
structure OpenCtxt where
  outerEnd : Nat
  start : Nat
  slot : Nat
  skip : Nat
  /-- the instructions emitted before the context item (newest first) -/
  before : List (Nat × List Nat)
  deriving Repr, DecidableEq

structure Dec where
  outIndex : Int
  outLength : Nat                 -- uint16
  stackDepth : Int := 0
  inCtxt : Bool := false
  slotref : Int := 0
  ctxs : List Cx := List.replicate 256 {}
  maxRef : Nat := 0
  instrs : List (Nat × List Nat) := []      -- newest first
  count : Nat := 0
  dataSize : Nat := 0
  modify : Bool := false
  delete : Bool := false
  curEnd : Nat                    -- `_max.bytecode`
  ctxt : Option OpenCtxt := none
  deriving Repr, DecidableEq

def s8 (b : Nat) : Int := if b < 128 then b else (b : Int) - 256
def u16 (x : Int) : Nat := (x % 65536).toNat

/-- `valid_upto(limit, x)` failed? -/
def notUpto (limit : Nat) (x : Nat) : Bool := !(decide (limit ≠ 0) && decide (x < limit))

/-- `test_ref(index)` failed? -/
def badRef (l : Limits) (constraint : Bool) (d : Dec) (index : Int) : Bool :=
  if constraint ∧ ¬ d.inCtxt then decide (index > 0 ∨ -index > l.preContext)
  else decide (l.ruleLength = 0 ∨ d.slotref + l.preContext + index ≥ l.ruleLength ∨ d.slotref + l.preContext + index < 0)

/-- `test_context()` failed? -/
def badContext (d : Dec) : Bool := decide (d.outIndex ≥ d.outLength ∨ d.outIndex < 0 ∨ d.slotref ≥ 255)

/-- the status the last failing test leaves -/
def lastFail : List (Bool × Nat) → Option Nat
  | [] => none
  | (c, s) :: rest => match lastFail rest with
    | some s' => some s'
    | none => if c then some s else none

def arg (ps : List Nat) (k : Nat) : Except Fault Nat := byteAt ps k

/-- the part of the decoder's state the switch of `fetch_opcode` changes -/
structure Book where
  outIndex : Int
  outLength : Nat
  stackDepth : Int
  deriving Repr, DecidableEq

/-- the `test_ref` of every slot byte of an `ASSOC` -/
def assocRefs (l : Limits) (constraint : Bool) (d : Dec) (ps : List Nat) : Nat → Except Fault (List (Bool × Nat))
  | 0 => .ok []
  | n + 1 => do
    let b ← arg ps (n + 1)
    let rest ← assocRefs l constraint d ps n
    return (badRef l constraint d (s8 b), S_out_of_range) :: rest

/-- the switch of `fetch_opcode`: the new bookkeeping state and the tests, in the order they are made.  `ps` are the parameter
bytes (`validate_opcode` has established that they lie inside the bytecode); `pos` is the offset of the opcode byte. -/
def fetchCase (l : Limits) (constraint : Bool) (pt : Nat) (d : Dec) (opc pos : Nat) (ps : List Nat) :
    Except Fault (Book × List (Bool × Nat)) := do
  let oor := S_out_of_range
  let b : Book := { outIndex := d.outIndex, outLength := d.outLength, stackDepth := d.stackDepth }
  if opc = 0 then return (b, [])
  else if 1 ≤ opc ∧ opc ≤ 5 then return ({ b with stackDepth := d.stackDepth + 1 }, [])
  else if (6 ≤ opc ∧ opc ≤ 11) ∨ opc = 16 ∨ opc = 17 ∨ (19 ≤ opc ∧ opc ≤ 24) ∨ opc = 62 ∨ opc = 63 then
    return ({ b with stackDepth := d.stackDepth - 1 }, [(decide (d.stackDepth - 1 ≤ 0), S_underfull_stack)])
  else if (12 ≤ opc ∧ opc ≤ 14) ∨ opc = 18 ∨ opc = 64 ∨ opc = 65 then
    return (b, [(decide (d.stackDepth ≤ 0), S_underfull_stack)])
  else if opc = 15 then
    return ({ b with stackDepth := d.stackDepth - 2 }, [(decide (d.stackDepth - 2 ≤ 0), S_underfull_stack)])
  else if opc = 26 then return (b, [])
  else if opc = 25 ∨ opc = 27 then                                      -- NEXT, COPY_NEXT
    let oi := d.outIndex + 1
    return ({ b with outIndex := oi }, [(decide (oi < -1 ∨ oi > d.outLength ∨ d.slotref > l.ruleLength), oor)])
  else if opc = 28 then                                                 -- PUT_GLYPH_8BIT_OBS
    let c ← arg ps 0
    return (b, [(notUpto l.classes c, oor), (badContext d, oor)])
  else if opc = 29 then                                                 -- PUT_SUBS_8BIT_OBS
    let r ← arg ps 0
    let c1 ← arg ps 1
    let c2 ← arg ps 2
    return (b, [(badRef l constraint d (s8 r), oor), (notUpto l.classes c1, oor), (notUpto l.classes c2, oor), (badContext d, oor)])
  else if opc = 30 then                                                 -- PUT_COPY
    let r ← arg ps 0
    return (b, [(badRef l constraint d (s8 r), oor), (badContext d, oor)])
  else if opc = 31 then                                                 -- INSERT
    let ol := (d.outLength + 1) % 65536
    let oi := if d.outIndex < 0 then d.outIndex + 1 else d.outIndex
    return ({ b with outLength := ol, outIndex := oi },
            [(decide (pt ≥ passPositioning), S_invalid_opcode), (decide (oi < -1 ∨ oi ≥ ol), oor)])
  else if opc = 32 then                                                 -- DELETE
    let oi := d.outIndex - 1
    let ol := (d.outLength + 65535) % 65536
    return ({ b with outLength := ol, outIndex := oi },
            [(decide (pt ≥ passPositioning), S_invalid_opcode), (decide (d.outIndex < l.preContext ∨ d.outIndex ≥ d.outLength), oor), (decide (oi < -1 ∨ oi > ol), oor)])
  else if opc = 33 then                                                 -- ASSOC
    let n ← arg ps 0
    let refs ← assocRefs l constraint d ps n
    return (b, (decide (n = 0), oor) :: refs ++ [(badContext d, oor)])
  else if opc = 34 then                                                 -- CNTXT_ITEM
    let s ← arg ps 0
    let skip ← arg ps 1
    return (b, [(notUpto l.ruleLength (u16 (l.preContext + s8 s)), oor), (decide (pos + 1 + 2 + skip ≥ d.curEnd), S_jump_past_end),
                (d.inCtxt, S_nested_context)])
  else if 35 ≤ opc ∧ opc ≤ 38 then                                      -- ATTR_SET, ATTR_ADD, ATTR_SUB, ATTR_SET_SLOT
    let a ← arg ps 0
    return ({ b with stackDepth := d.stackDepth - 1 },
            [(decide (d.stackDepth - 1 < 0), S_underfull_stack), (notUpto slatMax a, oor), (decide (a = slatUserDefn), oor), (badContext d, oor)])
  else if opc = 39 ∨ (51 ≤ opc ∧ opc ≤ 53) then                         -- IATTR_SET_SLOT, IATTR_SET, IATTR_ADD, IATTR_SUB
    let a ← arg ps 0
    let i ← arg ps 1
    return ({ b with stackDepth := d.stackDepth - 1 },
            [(decide (d.stackDepth - 1 < 0), S_underfull_stack), (notUpto slatMax a, oor),
             (!(notUpto slatMax a) && notUpto (attridLimit l.numUser a) i, oor), (badContext d, oor)])
  else if opc = 40 then                                                 -- PUSH_SLOT_ATTR
    let a ← arg ps 0
    let r ← arg ps 1
    return ({ b with stackDepth := d.stackDepth + 1 },
            [(notUpto slatMax a, oor), (badRef l constraint d (s8 r), oor), (decide (a = slatUserDefn), oor)])
  else if opc = 41 ∨ opc = 44 then                                      -- PUSH_GLYPH_ATTR_OBS, PUSH_ATT_TO_GATTR_OBS
    let a ← arg ps 0
    let r ← arg ps 1
    return ({ b with stackDepth := d.stackDepth + 1 }, [(notUpto l.glyfAttrs a, oor), (badRef l constraint d (s8 r), oor)])
  else if opc = 42 ∨ opc = 45 then                                      -- PUSH_GLYPH_METRIC, PUSH_ATT_TO_GLYPH_METRIC
    let a ← arg ps 0
    let r ← arg ps 1
    return ({ b with stackDepth := d.stackDepth + 1 }, [(notUpto kgmetDescent a, oor), (badRef l constraint d (s8 r), oor)])
  else if opc = 43 then                                                 -- PUSH_FEAT
    let a ← arg ps 0
    let r ← arg ps 1
    return ({ b with stackDepth := d.stackDepth + 1 }, [(notUpto l.features a, oor), (badRef l constraint d (s8 r), oor)])
  else if opc = 46 then                                                 -- PUSH_ISLOT_ATTR
    let a ← arg ps 0
    let r ← arg ps 1
    let i ← arg ps 2
    let ok := !(notUpto slatMax a)
    return ({ b with stackDepth := d.stackDepth + 1 },
            [(notUpto slatMax a, oor), (ok && badRef l constraint d (s8 r), oor), (ok && notUpto (attridLimit l.numUser a) i, oor)])
  else if opc = 47 ∨ opc = 54 ∨ opc = 55 then return ({ b with stackDepth := d.stackDepth + 1 }, [])   -- PUSH_IGLYPH_ATTR, PUSH_PROC_STATE, PUSH_VERSION
  else if opc = 48 then                                                 -- POP_RET
    return ({ b with stackDepth := d.stackDepth - 1 }, [(decide (d.stackDepth - 1 < 0), S_underfull_stack)])
  else if opc = 49 ∨ opc = 50 ∨ opc = 57 ∨ opc = 58 then return (b, [])  -- RET_ZERO, RET_TRUE, PUT_SUBS2, PUT_SUBS3
  else if opc = 56 then                                                 -- PUT_SUBS
    let r ← arg ps 0
    let a1 ← arg ps 1
    let a2 ← arg ps 2
    let b1 ← arg ps 3
    let b2 ← arg ps 4
    return (b, [(badRef l constraint d (s8 r), oor), (notUpto l.classes (a1 * 256 + a2), oor), (notUpto l.classes (b1 * 256 + b2), oor), (badContext d, oor)])
  else if opc = 59 then                                                 -- PUT_GLYPH
    let a1 ← arg ps 0
    let a2 ← arg ps 1
    return (b, [(notUpto l.classes (a1 * 256 + a2), oor), (badContext d, oor)])
  else if opc = 60 ∨ opc = 61 then                                      -- PUSH_GLYPH_ATTR, PUSH_ATT_TO_GLYPH_ATTR
    let a1 ← arg ps 0
    let a2 ← arg ps 1
    let r ← arg ps 2
    return ({ b with stackDepth := d.stackDepth + 1 }, [(notUpto l.glyfAttrs (a1 * 256 + a2), oor), (badRef l constraint d (s8 r), oor)])
  else if opc = 66 then                                                 -- SET_FEAT
    let a ← arg ps 0
    let r ← arg ps 1
    return (b, [(notUpto l.features a, oor), (badRef l constraint d (s8 r), oor)])
  else return (b, [(true, S_invalid_opcode)])

/-! ## `analyse_opcode` -/

/-- `_contexts[i].… = …` -/
def updCx (cs : List Cx) (i : Nat) (f : Cx → Cx) : List Cx :=
  match cs[i]? with
  | some c => cs.set i (f c)
  | none => cs

def inCx (x : Int) : Bool := decide (0 ≤ x ∧ x < 256)

def bumpRef (d : Dec) (x : Int) : Dec := if x > d.maxRef then { d with maxRef := x.toNat } else d

def setRef (d : Dec) (index : Int) : Dec :=
  let x := index + d.slotref
  if inCx x then bumpRef { d with ctxs := updCx d.ctxs x.toNat fun c => { c with referenced := true } } x else d

def setNoref (d : Dec) (index : Int) : Dec :=
  let x := index + d.slotref
  if inCx x then bumpRef d x else d

def setChanged (d : Dec) (index : Int) : Dec :=
  let x := index + d.slotref
  if inCx x then bumpRef { d with ctxs := updCx d.ctxs x.toNat fun c => { c with changed := true } } x else d

/-- `analyse_opcode`; the write `_contexts[_slotref] = …` of `NEXT` is checked -/
def analyse (d : Dec) (opc : Nat) (ps : List Nat) : Except Fault Dec := do
  if opc = 32 then return { d with delete := true }
  else if opc = 33 then return setChanged d 0
  else if opc = 28 ∨ opc = 59 then return setChanged { d with modify := true } 0
  else if (35 ≤ opc ∧ opc ≤ 39) ∨ (51 ≤ opc ∧ opc ≤ 53) then return setNoref d 0
  else if opc = 25 ∨ opc = 27 then
    let sr := d.slotref + 1
    if 0 ≤ sr ∧ sr < 256 then return { d with slotref := sr, ctxs := d.ctxs.set sr.toNat { codeRef := (d.count + 1) % 256 } }
    else .error (.read "_contexts")
  else if opc = 31 then return { d with slotref := if d.slotref ≥ 0 then d.slotref - 1 else d.slotref, modify := true }
  else if opc = 29 ∨ opc = 56 then
    let r ← arg ps 0
    let d := setChanged { d with modify := true } 0
    let d := if s8 r ≠ 0 then setChanged { d with modify := true } 0 else d
    return setRef d (s8 r)
  else if opc = 30 then
    let r ← arg ps 0
    let d := if s8 r ≠ 0 then { setChanged d 0 with modify := true } else d
    return setRef d (s8 r)
  else if opc = 41 ∨ opc = 40 ∨ opc = 42 ∨ opc = 44 ∨ opc = 45 ∨ opc = 46 ∨ opc = 43 ∨ opc = 66 then
    let r ← arg ps 1
    return setRef d (s8 r)
  else if opc = 61 ∨ opc = 60 then
    let r ← arg ps 2
    return setRef d (s8 r)
  else return d

/-! ## the loop -/

/-- closing the open context item: the two skip bytes are rewritten, the bookkeeping is reset -/
def closeCtxt (d : Dec) (c : OpenCtxt) : Dec :=
  let n := d.count - c.start
  let item := (34, [c.slot, n % 256, (c.skip + 256 - n % 256) % 256])
  { d with instrs := d.instrs ++ item :: c.before, ctxt := none, curEnd := c.outerEnd, outLength := 1, outIndex := 0, slotref := 0, inCtxt := false }

/-- `param_sz == VARARGS ? bc[0] + 1 : param_sz` -/
def paramCount (bc : List Nat) (pos psz : Nat) : Except Fault Nat :=
  if psz = 255 then (match byteAt bc (pos + 1) with | .error e => .error e | .ok k => .ok (k + 1)) else .ok psz

/-- one opcode: `validate_opcode`, `fetch_opcode`, `analyse_opcode`, `emit_opcode`; `.error s` is the status of a refusal -/
def stepOp (l : Limits) (constraint : Bool) (pt : Nat) (bc : List Nat) (pos : Nat) (d : Dec) : Except Fault (Except Nat (Nat × Dec)) := do
  let opc ← byteAt bc pos
  if opc ≥ 67 then return .error S_invalid_opcode
  match opcodeTable[opc]? with
  | none => return .error S_invalid_opcode
  | some (_, psz, implA, implC) =>
    if !(if constraint then implC else implA) then return .error S_unimplemented
    if psz = 255 ∧ pos + 1 ≥ d.curEnd then return .error S_arguments_exhausted
    let n ← paramCount bc pos psz
    if pos + n ≥ d.curEnd then return .error S_arguments_exhausted
    let ps := (bc.drop (pos + 1)).take n
    let (b1, tests) ← fetchCase l constraint pt d opc pos ps
    match lastFail tests with
    | some s => return .error s
    | none =>
      let d2 ← analyse { d with outIndex := b1.outIndex, outLength := b1.outLength, stackDepth := b1.stackDepth } opc ps
      let d3 := { d2 with count := d2.count + 1, dataSize := d2.dataSize + n }
      if opc = 34 then
        let s ← arg ps 0
        let skip ← arg ps 1
        return .ok (pos + 1 + n,
          { d3 with inCtxt := true, outIndex := l.preContext + s8 s, slotref := s8 s, outLength := l.ruleLength, dataSize := d3.dataSize + 1,
                    instrs := [], curEnd := pos + 1 + n + skip,
                    ctxt := some { outerEnd := d.curEnd, start := d3.count, slot := s, skip := skip, before := d3.instrs } })
      else
        return .ok (pos + 1 + n, { d3 with instrs := (opc, ps) :: d3.instrs })

/-- `decoder::load` with the nested load of a context item flattened -/
def loop (l : Limits) (constraint : Bool) (pt : Nat) (bc : List Nat) : Nat → Nat → Dec → Except Fault (Except Nat Dec)
  | 0, _, _ => .error (.read "fuel")
  | fuel + 1, pos, d =>
    if pos ≥ d.curEnd then
      match d.ctxt with
      | none => .ok (.ok d)
      | some c => loop l constraint pt bc fuel pos (closeCtxt d c)
    else
      match stepOp l constraint pt bc pos d with
      | .error f => .error f
      | .ok (.error s) => .ok (.error s)
      | .ok (.ok (pos', d')) => loop l constraint pt bc fuel pos' d'

def isReturn (opc : Nat) : Bool := opc = 48 ∨ opc = 49 ∨ opc = 50

/-- `apply_analysis`: the positions (in the growing instruction list) at which a `TEMP_COPY` goes in -/
def tempPositions (d : Dec) : List Nat :=
  let cs := (d.ctxs.take d.slotref.toNat).filter fun c => c.referenced && c.changed
  cs.zipIdx.map fun (c, k) => c.codeRef + k

def insertAt (is : List (Nat × List Nat)) (p : Nat) : List (Nat × List Nat) := is.take p ++ (67, []) :: is.drop p

/-- what a loaded program consists of -/
structure Loaded where
  instrs : List (Nat × List Nat)       -- with the `TEMP_COPY`s, without the `RET_ZERO` appended behind the end
  dataSize : Nat
  maxRef : Nat
  modify : Bool
  delete : Bool
  temps : Nat
  deriving Repr, DecidableEq

/-- `Machine::Code::Code(is_constraint, begin, end, pre_context, rule_length, silf, face, pt)` for a non-empty range.
`.ok none`: an empty program. -/
def load (l : Limits) (constraint : Bool) (pt : Nat) (bc : List Nat) : Except Fault (Except Nat (Option Loaded)) := do
  let d0 : Dec := { outIndex := if constraint then 0 else l.preContext, outLength := if constraint then 1 else l.ruleLength, curEnd := bc.length }
  match ← loop l constraint pt bc (2 * bc.length + 2) 0 d0 with
  | .error s => return .error s
  | .ok d =>
    if d.count = 0 then return .ok none
    match d.instrs.head? with
    | none => return .error S_missing_return        -- (count ≠ 0 means there is one)
    | some last =>
      if !isReturn last.1 then return .error S_missing_return
      let is := d.instrs.reverse
      let ts := if constraint then [] else tempPositions d
      return .ok (some { instrs := ts.foldl insertAt is, dataSize := d.dataSize, maxRef := d.maxRef, modify := d.modify,
                         delete := d.delete || !ts.isEmpty, temps := ts.length })

/-! ## the numeric literals above are the regenerated opcode numbers -/
example : [("NOP", 0), ("PUSH_BYTE", 1), ("PUSH_LONG", 5), ("ADD", 6), ("MAX_", 11), ("NEG", 12), ("TRUNC16", 14), ("COND", 15), ("AND", 16),
    ("OR", 17), ("NOT", 18), ("EQUAL", 19), ("GTR_EQ", 24), ("NEXT", 25), ("NEXT_N", 26), ("COPY_NEXT", 27), ("PUT_GLYPH_8BIT_OBS", 28),
    ("PUT_SUBS_8BIT_OBS", 29), ("PUT_COPY", 30), ("INSERT", 31), ("DELETE", 32), ("ASSOC", 33), ("CNTXT_ITEM", 34), ("ATTR_SET", 35),
    ("ATTR_ADD", 36), ("ATTR_SUB", 37), ("ATTR_SET_SLOT", 38), ("IATTR_SET_SLOT", 39), ("PUSH_SLOT_ATTR", 40), ("PUSH_GLYPH_ATTR_OBS", 41),
    ("PUSH_GLYPH_METRIC", 42), ("PUSH_FEAT", 43), ("PUSH_ATT_TO_GATTR_OBS", 44), ("PUSH_ATT_TO_GLYPH_METRIC", 45), ("PUSH_ISLOT_ATTR", 46),
    ("PUSH_IGLYPH_ATTR", 47), ("POP_RET", 48), ("RET_ZERO", 49), ("RET_TRUE", 50), ("IATTR_SET", 51), ("IATTR_ADD", 52), ("IATTR_SUB", 53),
    ("PUSH_PROC_STATE", 54), ("PUSH_VERSION", 55), ("PUT_SUBS", 56), ("PUT_SUBS2", 57), ("PUT_SUBS3", 58), ("PUT_GLYPH", 59),
    ("PUSH_GLYPH_ATTR", 60), ("PUSH_ATT_TO_GLYPH_ATTR", 61), ("BITOR", 62), ("BITAND", 63), ("BITNOT", 64), ("BITSET", 65), ("SET_FEAT", 66),
    ("MAX_OPCODE", 67), ("TEMP_COPY", 67)].all (fun p => opcodeEnum.lookup p.1 = some p.2) = true := by decide
example : opcodeTable.length = 68 := by decide

end GrVerif.CodeLoad

import GrVerif.Model.Basic
/-!
# Two loader components   (C01)

* the sfnt container as `FileFace` reads it (`src/FileFace.cpp`, `TtfUtil::GetHeaderInfo/CheckHeader/GetTableDirInfo/
  GetTableInfo`): header, table directory, and the bounds test of `FileFace::get_table_fn`;
* `Pass::readRanges` (`src/Pass.cpp`): the glyph → column map of a pass.

A read outside the bytes that were handed to the code is a `Fault` (it does not silently yield a default).
-/
namespace GrVerif.Loader

inductive Fault where
  | read (what : String)
  deriving Repr, DecidableEq

def be16 (b : List Nat) (i : Nat) : Except Fault Nat :=
  match b[i]?, b[i + 1]? with
  | some x, some y => .ok (x * 256 + y)
  | _, _ => .error (.read "be16")

def be32 (b : List Nat) (i : Nat) : Except Fault Nat :=
  match b[i]?, b[i + 1]?, b[i + 2]?, b[i + 3]? with
  | some x, some y, some z, some w => .ok (((x * 256 + y) * 256 + z) * 256 + w)
  | _, _, _, _ => .error (.read "be32")

/-- the state of a `FileFace` after its constructor: the 12 header bytes and the directory bytes, or not a usable face -/
structure FileFace where
  fileLen : Nat
  header : List Nat
  dir : List Nat
  deriving Repr, DecidableEq

/-- `FileFace::FileFace`: `none` when `operator bool` is false (short file, wrong scaler type, short directory) -/
def openFile (file : List Nat) : Except Fault (Option FileFace) :=
  if file.length < 12 then .ok none else
  let hdr := file.take 12
  match be32 hdr 0 with
  | .error e => .error e
  | .ok scaler =>
    if scaler ≠ 0x00010000 then .ok none else
    match be16 hdr 4 with
    | .error e => .error e
    | .ok numTables =>
      let dlen := numTables * 16
      -- `fread(_table_dir, 1, tbl_len, _file) != tbl_len` frees the directory
      if 12 + dlen > file.length then .ok none else
      .ok (some { fileLen := file.length, header := hdr, dir := (file.drop 12).take dlen })

/-- `TtfUtil::GetTableInfo`: linear search of at most 40 directory entries -/
def tableInfo (f : FileFace) (tag : Nat) : Except Fault (Option (Nat × Nat)) :=
  match be16 f.header 4 with
  | .error e => .error e
  | .ok numTables =>
    if numTables > 40 then .ok none else
    let rec go (k : Nat) (i : Nat) : Except Fault (Option (Nat × Nat)) :=
      match k with
      | 0 => .ok none
      | k + 1 =>
        match be32 f.dir (16 * i) with
        | .error e => .error e
        | .ok t =>
          if t = tag then
            match be32 f.dir (16 * i + 8), be32 f.dir (16 * i + 12) with
            | .ok off, .ok len => .ok (some (off, len))
            | .error e, _ => .error e
            | _, .error e => .error e
          else go k (i + 1)
    go numTables 0

/-- `FileFace::get_table_fn`: the byte range of the file that is read and handed to the library -/
def getTable (file : List Nat) (f : FileFace) (tag : Nat) : Except Fault (Option (Nat × Nat)) :=
  match tableInfo f tag with
  | .error e => .error e
  | .ok none => .ok none
  | .ok (some (off, len)) =>
    if off > f.fileLen ∨ len > f.fileLen - off then .ok none else .ok (some (off, len))

/-! ## `Pass::readRanges` -/

/-- the column map after reading `numRanges` range records `(first, last, col)`; `none` = E_BADRANGE.  A store outside
`m_cols[0 .. numGlyphs)` is a fault. -/
def readRanges (numGlyphs numColumns : Nat) (ranges : List Nat) (numRanges : Nat) : Except Fault (Option (List Nat)) :=
  let rec fill (cols : List Nat) (ci ciEnd col : Nat) (fuel : Nat) : Except Fault (List Nat × Nat) :=
    match fuel with
    | 0 => .ok (cols, ci)
    | f + 1 =>
      if ci ≠ ciEnd then
        match cols[ci]? with
        | none => .error (.read "m_cols")
        | some v => if v = 0xFFFF then fill (cols.set ci col) (ci + 1) ciEnd col f else .ok (cols, ci)
      else .ok (cols, ci)
  let rec go (n : Nat) (p : Nat) (cols : List Nat) : Except Fault (Option (List Nat)) :=
    match n with
    | 0 => .ok (some cols)
    | n + 1 =>
      match be16 ranges p, be16 ranges (p + 2), be16 ranges (p + 4) with
      | .ok first, .ok last, .ok col =>
        let ci := first
        let ciEnd := last + 1
        if ci ≥ ciEnd ∨ ciEnd > numGlyphs ∨ col ≥ numColumns then .ok none else
        match fill cols ci ciEnd col (numGlyphs + 1) with
        | .error e => .error e
        | .ok (cols, ci') => if ci' ≠ ciEnd then .ok none else go n (p + 6) cols
      | .error e, _, _ => .error e
      | _, .error e, _ => .error e
      | _, _, .error e => .error e
  go numRanges 0 (List.replicate numGlyphs 0xFFFF)

end GrVerif.Loader

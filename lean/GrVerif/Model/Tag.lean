import GrVerif.Model.Basic
import GrVerif.Gen.Pads
/-!
# Tag / string conversions (`gr_str_to_tag`, `gr_tag_to_str`, `zeropad`)  — property C20

`strToTag` is transcribed from `gr_str_to_tag` in `src/gr_face.cpp`: `strlen`, then the
fall-through `switch (min(strlen(str), 4))` whose cases OR in `uint8(str[k]) << s`.
The argument buffer is exactly the memory the caller owns; every byte read goes through `rd`.
-/
namespace GrVerif.Tag

/-- `strlen`: index of the first NUL, reading every byte up to it -/
def strlenGo (b : Buf) (i : Nat) : Except Fault Nat :=
  if h : i < b.size then (if b[i] = 0 then .ok i else strlenGo b (i+1)) else .error (.oob i b.size)
termination_by b.size - i

def strlen (b : Buf) : Except Fault Nat := strlenGo b 0

def strToTag (b : Buf) : Except Fault Nat := do
  let n ← strlen b
  let k := min n 4
  let r3 ← if 4 ≤ k then rd b 3 else pure 0       -- case 4: res |= uint8(str[3]);
  let r2 ← if 3 ≤ k then rd b 2 else pure 0       -- case 3: res |= uint8(str[2]) << 8;
  let r1 ← if 2 ≤ k then rd b 1 else pure 0       -- case 2: res |= uint8(str[1]) << 16;
  let r0 ← if 1 ≤ k then rd b 0 else pure 0       -- case 1: res |= uint8(str[0]) << 24;
  pure (r3 ||| (r2 <<< 8) ||| (r1 <<< 16) ||| (r0 <<< 24))

/-- `gr_tag_to_str`: the list of `(index, byte)` stores into the caller's buffer, in order -/
def tagToStrWrites (tag : Nat) : List (Nat × Nat) :=
  [(0, (tag >>> 24) % 256), (1, (tag >>> 16) % 256), (2, (tag >>> 8) % 256), (3, tag % 256)]

/-- apply stores to a buffer; a store outside the buffer is a fault -/
def applyWrites (buf : Buf) : List (Nat × Nat) → Except Fault Buf
  | [] => .ok buf
  | (i, v) :: ws => if i < buf.size then applyWrites (buf.set! i v) ws else .error (.oob i buf.size)

def tagToStr (tag : Nat) (buf : Buf) : Except Fault Buf := applyWrites buf (tagToStrWrites tag)

/-- interpretation of an extracted padding if-chain (`Gen.Pads`) -/
def applyChain : List (Nat × Nat × Nat) → Nat → Nat
  | [], x => x
  | (m, v, k) :: rest, x => if x &&& m = v then x &&& k else applyChain rest x

def zeropad (x : Nat) : Nat := applyChain Gen.zeropadChain x
def scriptStrip (x : Nat) : Nat := applyChain Gen.scriptStripChain x

end GrVerif.Tag

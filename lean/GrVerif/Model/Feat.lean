import GrVerif.Model.Basic
import GrVerif.Model.Tag
/-!
# Feature values: bit packing, Feat/Sill parsing, lookups   (C18)

Transcribed from `src/FeatureMap.cpp`, `src/inc/FeatureMap.h`, `src/inc/FeatureVal.h`, `src/gr_features.cpp`,
`src/gr_face.cpp`.  A `FeatureVal` is an array of 32-bit words; a `FeatureRef` addresses `need` bits at bit `bits` of
word `index`.  `mask_over_val`/`bit_set_count` (`inc/bits.h`) are modelled by their meaning (`needBits` = number of
bits of the largest value); the tie to the code for every possible maximum is exhaustive in the correspondence check.
Integer widths of the C++ fields are kept: `m_index` is a byte, the running bit offset an `unsigned short`.
-/
namespace GrVerif.Feat

/-- number of bits needed for values `0..v` (= popcount of `mask_over_val v`) -/
def needBits (v : Nat) : Nat := if v = 0 then 0 else Nat.log2 v + 1

structure FRef where
  id : Nat
  max : Nat          -- `m_max`
  need : Nat         -- popcount of the unshifted mask
  bits : Nat         -- `m_bits` (byte)
  index : Nat        -- `m_index` (byte)
  flags : Nat
  nameId : Nat
  settings : List (Int × Nat)     -- (value : int16, label name id)
  deriving Repr, DecidableEq

/-- `m_mask` after `m_mask <<= m_bits` (a 32-bit quantity) -/
def FRef.mask (r : FRef) : Nat := ((2 ^ r.need - 1) <<< r.bits) % 2^32

/-- `FeatureRef::FeatureRef(face, bits_offset, max_val, …)`: returns the ref and the new `bits_offset` (unsigned short) -/
def mkRef (bitsOffset : Nat) (max id flags nameId : Nat) (settings : List (Int × Nat)) : FRef × Nat :=
  let need := needBits max
  let index := ((bitsOffset + need) / 32) % 256                       -- stored in a byte
  let bitsOffset := if index > bitsOffset / 32 then index * 32 else bitsOffset
  let bits := bitsOffset % 32
  ({ id, max, need, bits, index, flags, nameId, settings }, (bitsOffset + need) % 65536)

abbrev FVal := Array Nat

/-- `FeatureRef::applyValToFeature(val, dest)` on a feature-value vector of this face (`none` = returns false) -/
def FRef.apply (r : FRef) (val : Nat) (fv : FVal) : Option FVal :=
  if val > r.max then none else
  let fv := if r.index ≥ fv.size then fv ++ Array.replicate (r.index + 1 - fv.size) 0 else fv     -- resize(m_index+1)
  let w := fv.getD r.index 0
  some (fv.setIfInBounds r.index (((w &&& (4294967295 - r.mask)) ||| ((val <<< r.bits) % 2^32))))

/-- `FeatureRef::getFeatureVal(feats)` -/
def FRef.get (r : FRef) (fv : FVal) : Nat :=
  if r.index < fv.size then (fv.getD r.index 0 &&& r.mask) >>> r.bits else 0

structure FeatureMap where
  feats : List FRef
  defaults : FVal
  deriving Repr

def be16 (b : Buf) (i : Nat) : Except Fault Nat := do
  let a ← rd b i; let c ← rd b (i + 1); pure (a * 256 + c)
def be32 (b : Buf) (i : Nat) : Except Fault Nat := do
  let a ← be16 b i; let c ← be16 b (i + 2); pure (a * 65536 + c)
def s16 (x : Nat) : Int := if x < 32768 then x else (x : Int) - 65536

/-- `readFeatureSettings`: the settings and the maximum `uint16(value)` -/
def readSettings (t : Buf) : Nat → Nat → Except Fault (List (Int × Nat) × Nat)
  | 0, _ => .ok ([], 0)
  | n + 1, p => do
    let v ← be16 t p
    let l ← be16 t (p + 2)
    let (rest, m) ← readSettings t n (p + 4)
    pure ((s16 v, l) :: rest, if v > m then v else m)

/-- one feature record of the Feat table, with its settings read -/
structure Rec where
  id : Nat
  flags : Nat
  nameId : Nat
  settings : List (Int × Nat)
  max : Nat
  defVal : Nat
  deriving Repr

/-- the per-feature part of the loop of `readFeats` that reads bytes: `none` = a bounds test of the loader failed -/
def readRecs (t : Buf) (version : Nat) : Nat → Nat → Except Fault (Option (List Rec))
  | 0, _ => .ok (some [])
  | n + 1, p => do
    let (label, p) ← if version < 0x00020000 then (do let x ← be16 t p; pure (x, p + 2)) else (do let x ← be32 t p; pure (x, p + 4))
    let numSettings ← be16 t p
    let p := if version ≥ 0x00020000 then p + 4 else p + 2
    let settingsOffset ← be32 t p
    let flags ← be16 t (p + 4)
    let uiName ← be16 t (p + 6)
    let p := p + 8
    if settingsOffset > t.size ∨ settingsOffset + numSettings * 4 > t.size then return none
    let (settings, maxVal, defVal) ← if numSettings ≠ 0 then (do
        let (ss, m) ← readSettings t numSettings settingsOffset
        pure (ss, m, match ss with | (v, _) :: _ => (v % 65536).toNat | [] => 0))
      else pure ([], 0xffffffff, 0)
    match ← readRecs t version n p with
    | none => pure none
    | some rest => pure (some (⟨label, flags, uiName, settings, maxVal, defVal⟩ :: rest))

/-- the part of the loop that packs: each record gets its `FeatureRef`; `none` when the packed size would pass the
255 words a byte-sized word index can address (the loader then fails) -/
def alloc : Nat → List Rec → Option (List (FRef × Nat) × Nat)
  | bits, [] => some ([], bits)
  | bits, r :: rs =>
    if bits ≥ 255 * 32 then none else
    let (f, bits') := mkRef bits r.max r.id r.flags r.nameId r.settings
    match alloc bits' rs with
    | none => none
    | some (fs, b) => some ((f, r.defVal) :: fs, b)

/-- `FeatureMap::readFeats`: `none` = the face fails to load.
(The C++ loop interleaves reading and packing; a failed bounds test and a failed packing test both fail the load, so
the order in which they are detected is not observable.) -/
def readFeats (t : Buf) : Except Fault (Option FeatureMap) := do
  -- `Face::Table`: `CheckTable` rejects a table of fewer than four bytes, which then counts as absent (`if (!p) return true`)
  if t.size < 4 then return some ⟨[], #[]⟩
  if t.size < 12 then return none
  let version ← be32 t 0
  let numFeats ← be16 t 4
  if numFeats = 0 then return some ⟨[], #[]⟩
  if version < 0x00010000 ∨ 12 + numFeats * 16 > t.size then return none
  match ← readRecs t version numFeats 12 with
  | none => pure none
  | some recs =>
    match alloc 0 recs with
    | none => pure none
    | some (rs, bits) =>
      let defaults0 : FVal := Array.replicate (bits / 32 + 1) 0
      let defaults := rs.foldl (fun fv (r : FRef × Nat) => (r.1.apply r.2 fv).getD fv) defaults0
      pure (some ⟨rs.map (·.1), defaults⟩)

/-- `FeatureMap::findFeatureRef`: the named refs are sorted by id; the first with that id -/
def FeatureMap.find (m : FeatureMap) (id : Nat) : Option FRef :=
  m.feats.find? (fun r => r.id = id)

structure SillMap where
  fm : FeatureMap
  langs : List (Nat × FVal)
  deriving Repr

def readLangSettings (t : Buf) (fm : FeatureMap) : Nat → Nat → FVal → Except Fault FVal
  | 0, _, fv => .ok fv
  | n + 1, p, fv => do
    let name ← be32 t p
    let val ← be16 t (p + 4)
    let fv := match fm.find name with
      | some r => (r.apply val fv).getD fv
      | none => fv
    readLangSettings t fm n (p + 8) fv

def readSillLoop (t : Buf) (fm : FeatureMap) : Nat → Nat → Except Fault (Option (List (Nat × FVal)))
  | 0, _ => .ok (some [])
  | n + 1, p => do
    let langid ← be32 t p
    let numSettings ← be16 t (p + 4)
    let offset ← be16 t (p + 6)
    if offset + 8 * numSettings > t.size ∧ numSettings > 0 then return none
    let fv ← readLangSettings t fm numSettings offset fm.defaults
    -- "the language id feature which is always feature id 1"
    let fv := match fm.find 1 with
      | some r => (r.apply langid fv).getD fv
      | none => fv
    match ← readSillLoop t fm n (p + 8) with
    | none => pure none
    | some rest => pure (some ((langid, fv) :: rest))

/-- `SillMap::readSill` (with the Feat table already read): `none` = the face fails to load -/
def readSill (t : Buf) (fm : FeatureMap) : Except Fault (Option SillMap) := do
  if t.size < 4 then return some ⟨fm, []⟩          -- absent
  if t.size < 12 then return none
  let version ← be32 t 0
  if version ≠ 0x00010000 then return none
  let numLangs ← be16 t 4
  if fm.feats.isEmpty then return some ⟨fm, []⟩
  if t.size < numLangs * 8 + 12 then return none
  match ← readSillLoop t fm numLangs 12 with
  | none => pure none
  | some ls => pure (some ⟨fm, ls⟩)

/-- `SillMap::cloneFeatures(langname)` -/
def SillMap.clone (s : SillMap) (lang : Nat) : FVal :=
  if lang ≠ 0 then
    match s.langs.find? (fun l => l.1 = lang) with
    | some l => l.2
    | none => s.fm.defaults
  else s.fm.defaults

/-- `gr_face_featureval_for_lang` -/
def featurevalForLang (s : SillMap) (lang : Nat) : FVal := s.clone (Tag.zeropad lang)
/-- `gr_face_find_fref` -/
def findFref (s : SillMap) (id : Nat) : Option FRef := s.fm.find (Tag.zeropad id)

end GrVerif.Feat

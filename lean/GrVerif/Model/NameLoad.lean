import GrVerif.Model.PassLoad
/-!
# The name table: `NameTable::NameTable`, `setPlatformEncoding`, `getName`   (C01, C18)

`src/NameTable.cpp`.  `b` is the copy of the table the constructor makes (exactly `length` bytes).  A name record is 12 bytes at
`6 + 12·i`: platform, encoding, language, name id, length, offset.  `getName` as called with `gr_utf16`: the code units it copies out of the string storage and hands back
(the conversions to UTF-8/32 are C11's subject).
-/
namespace GrVerif.Loader

structure NameTab where
  count : Nat
  dataOff : Nat        -- `string_offset`
  dataLen : Nat        -- `m_nameDataLength`, a uint16
  platOff : Nat        -- `m_platformOffset`
  platLast : Nat       -- `m_platformLastRecord`
  deriving Repr, DecidableEq

def recField (b : List Nat) (i f : Nat) : Except Fault Nat := be16 b (6 + 12 * i + 2 * f)

/-- the first loop of `setPlatformEncoding`: the index of the first record of the platform and encoding, or `count` -/
def findPlat (b : List Nat) (plat enc count : Nat) : Nat → Nat → Except Fault Nat
  | 0, i => .ok i
  | fuel + 1, i =>
    if i < count then do
      let p ← recField b i 0
      let e ← recField b i 1
      if p = plat ∧ e = enc then return i else findPlat b plat enc count fuel (i + 1)
    else .ok i

/-- the second loop: `while (++i < count && record i matches) m_platformLastRecord = i;` – `i` is the index already incremented -/
def lastPlat (b : List Nat) (plat enc count : Nat) : Nat → Nat → Nat → Except Fault Nat
  | 0, _, last => .ok last
  | fuel + 1, i, last =>
    if i < count then do
      let p ← recField b i 0
      let e ← recField b i 1
      if p = plat ∧ e = enc then lastPlat b plat enc count fuel (i + 1) i else return last
    else .ok last

/-- `NameTable::NameTable(data, length, platformId, encodingID)`: `none` = `m_table == NULL` -/
def nameInit (b : List Nat) (plat enc : Nat) : Except Fault (Option NameTab) := do
  if b.length ≤ 18 then return none
  let count ← be16 b 2
  -- `sizeof(FontNames) + sizeof(NameRecord) * (count - 1)` in `size_t`: for `count = 0` it wraps to 6
  let need := if count = 0 then 6 else 18 + 12 * (count - 1)
  if b.length ≤ need then return none
  let off ← be16 b 4
  if off ≥ b.length then return none
  let i ← findPlat b plat enc count count 0
  -- until a record of the platform is found its range of records is empty (offset 1, last 0); the first match is both ends
  let platOff := if i < count then i else 1
  let last ← lastPlat b plat enc count count (i + 1) (if i < count then i else 0)
  return some { count, dataOff := off, dataLen := (b.length - off) % 65536, platOff, platLast := last }

/-- the scan of `getName` over the platform's records: (bestLang, enUSLang, anyLang); 0xFFFF = none found (there are at most 0xFFFF
records, so it is not an index) -/
def scanNames (b : List Nat) (langId nameId last : Nat) : Nat → Nat → Nat × Nat × Nat → Except Fault (Nat × Nat × Nat)
  | 0, _, acc => .ok acc
  | fuel + 1, i, (best, enUS, anyL) =>
    if i ≤ last then do
      let nid ← recField b i 3
      if nid = nameId then
        let lid ← recField b i 2
        if lid = langId then return (i, enUS, anyL)                                   -- `bestLang = i; break;`
        else if lid % 256 = langId % 256 then scanNames b langId nameId last fuel (i + 1) (i, enUS, anyL)
        else if lid = 0x409 then scanNames b langId nameId last fuel (i + 1) (best, i, anyL)
        else scanNames b langId nameId last fuel (i + 1) (best, enUS, i)
      else scanNames b langId nameId last fuel (i + 1) (best, enUS, anyL)
    else .ok (best, enUS, anyL)

def readUnits (b : List Nat) (off : Nat) : Nat → Except Fault (List Nat)
  | 0 => .ok []
  | n + 1 => do
    let u ← be16 b off
    let rest ← readUnits b (off + 2) n
    return u :: rest

/-- `!utf16::validate(first, last)` -/
def endsInHighSurrogate (units : List Nat) : Bool :=
  match units.getLast? with
  | some u => decide (0xD800 ≤ u ∧ u ≤ 0xDBFF)
  | none => false

/-- `NameTable::getName(languageId, nameId, …)` as far as the code units: `none` = NULL; else the language found and the units -/
def getNameUnits (b : List Nat) (t : NameTab) (langId nameId : Nat) : Except Fault (Option (Nat × List Nat)) := do
  let (best, enUS, anyL) ← scanNames b langId nameId t.platLast (t.platLast + 2) t.platOff (0xFFFF, 0xFFFF, 0xFFFF)
  let best := if best ≠ 0xFFFF then best else if enUS ≠ 0xFFFF then enUS else anyL
  if best = 0xFFFF then return none
  let lang ← recField b best 2
  let len ← recField b best 4
  let off ← recField b best 5
  if off + len > t.dataLen then return none
  let units ← readUnits b (t.dataOff + off) (len / 2)
  -- `utf16::validate`: the last unit must not be a high surrogate (the conversions read a pair at a time)
  if endsInHighSurrogate units then return none
  return some (lang, units)

end GrVerif.Loader

import GrVerif.Model.FaceLoad
import GrVerif.Model.GlyphGfx
import GrVerif.Model.Cmap
/-!
# `gr_make_face` over every table but `cmap` and `name`   (C01)

`Model/FaceLoad.lean` again, now with the graphics tables inside the model: `Face::Table` + `TtfUtil::CheckTable` for `head`, `hhea`,
`maxp`, `hmtx`, `loca`, `glyf`; the first half of `GlyphCache::Loader::Loader` (which tables must be there, the glyph count of `maxp`,
the `LocaLookup` probe for the last glyph); both halves of `read_glyph`; `unitsPerEm`.  Whether the `cmap` is usable is a parameter.
A table is `none` when the application has none; otherwise its bytes.
-/
namespace GrVerif.Loader

/-- `Face::Table(face, tag)`: the table if it is there, at least 4 bytes long and passes `TtfUtil::CheckTable` -/
def checkedTable (minLen : Nat) (extra : List Nat → Except Fault Bool) (t : Option (List Nat)) : Except Fault (Option (List Nat)) :=
  match t with
  | none => .ok none
  | some b =>
    if b.length < 4 ∨ b.length < minLen then .ok none else
    match extra b with
    | .error e => .error e
    | .ok true => .ok (some b)
    | .ok false => .ok none

/-- `CheckTable(head)`: version 1.0, the magic number, glyph data format 0, index-to-loc format 0 or 1 -/
def checkHead (b : List Nat) : Except Fault Bool := do
  let v ← be32 b 0
  let magic ← be32 b 12
  let locFmt ← be16 b 50
  let gdf ← be16 b 52
  return decide (v = 0x00010000 ∧ magic = 0x5F0F3CF5 ∧ gdf = 0 ∧ (locFmt = 0 ∨ locFmt = 1))

/-- `CheckTable(hhea)`: version 1.0, metric data format 0 -/
def checkHhea (b : List Nat) : Except Fault Bool := do
  let v ← be32 b 0
  let mdf ← be16 b 32
  return decide (v = 0x00010000 ∧ mdf = 0)

def checkMaxp (b : List Nat) : Except Fault Bool := do
  let v ← be32 b 0
  return decide (v = 0x00010000)

def noCheck (_ : List Nat) : Except Fault Bool := .ok true

structure GfxTables where
  head : List Nat
  hhea : List Nat
  hmtx : List Nat
  glyfLoca : Option (List Nat × List Nat)
  numGlyphs : Nat               -- `_num_glyphs_graphics`
  deriving Repr, DecidableEq

/-- the first half of `Loader::Loader`: `none` = the loader is not usable -/
def readGfxTables (head hhea hmtx maxp glyf loca : Option (List Nat)) : Except Fault (Option GfxTables) := do
  let head ← checkedTable 54 checkHead head
  let hhea ← checkedTable 36 checkHhea hhea
  let hmtx ← checkedTable 4 noCheck hmtx
  let glyf ← checkedTable 10 noCheck glyf
  let loca ← checkedTable 4 noCheck loca
  match head, hhea, hmtx with
  | some head, some hhea, some hmtx =>
    -- `!(bool(_glyf) != bool(_loca))`
    if glyf.isSome ≠ loca.isSome then return none
    match ← checkedTable 32 checkMaxp maxp with
    | none => return none
    | some maxp =>
      let ng ← be16 maxp 4
      let gl := match glyf, loca with | some g, some l => some (g, l) | _, _ => none
      -- `_glyf && LocaLookup(_num_glyphs_graphics - 1, …) == size_t(-2)`: the glyph id is a `gid16`
      match gl with
      | some (_, l) =>
        let fmt ← be16 head 50
        let r ← locaLookup (fmt = 1) l ((ng + 65535) % 65536)
        if r = -2 then return none
        return some { head, hhea, hmtx, glyfLoca := gl, numGlyphs := ng }
      | none => return some { head, hhea, hmtx, glyfLoca := gl, numGlyphs := ng }
  | _, _, _ => return none

/-- `read_glyph(gid, …)`, both halves -/
def readGlyphAll (G : GfxTables) (T : GlyphTables) (gloc glat : List Nat) (gid : Nat) : Except Fault (Option (Sparse × Nat)) :=
  match (if gid < G.numGlyphs then readGlyphGfx G.head G.hhea G.hmtx G.glyfLoca gid else .ok (some (none, none))) with
  | .error e => .error e
  | .ok none => .ok none
  | .ok (some _) => readGlyph T gloc glat gid

def preloadGlyphsAll (G : GfxTables) (T : GlyphTables) (gloc glat : List Nat) : Nat → Nat → Except Fault (Option (List (Sparse × Nat)))
  | 0, _ => .ok (some [])
  | n + 1, gid =>
    match readGlyphAll G T gloc glat gid with
    | .error e => .error e
    | .ok none => .ok none
    | .ok (some g) =>
      match preloadGlyphsAll G T gloc glat n (gid + 1) with
      | .error e => .error e
      | .ok none => .ok none
      | .ok (some rest) => .ok (some (g :: rest))

/-- the glyphs the constructor of `GlyphCache` loads – every glyph (and then the boxes) when preloading, else glyph 0 (and its box):
`false` = a glyph that has to be there could not be read -/
def glyphsLoad (G : GfxTables) (T : GlyphTables) (gloc glat : List Nat) (ng : Nat) (preload : Bool) : Except Fault Bool :=
  if preload then
    match preloadGlyphsAll G T gloc glat ng 0 with
    | .error e => .error e
    | .ok none => .ok false
    | .ok (some gs) =>
      -- the boxes are read too (a failure there only drops the boxes)
      match (if (gs.map (·.2)).sum > 0 ∧ T.hasBoxes then preloadBoxes T gloc glat ng 0 else .ok none) with
      | .error e => .error e
      | .ok _ => .ok true
  else
    match readGlyphAll G T gloc glat 0 with
    | .error e => .error e
    | .ok none => .ok false
    | .ok (some _) =>
      match (if T.hasBoxes then readBoxBytes T gloc glat 0 else .ok none) with
      | .error e => .error e
      | .ok _ => .ok true

structure GlyphCacheAll where
  numGlyphs : Nat
  numAttrs : Nat
  hasBoxes : Bool
  upem : Nat
  deriving Repr, DecidableEq

/-- `GlyphCache::GlyphCache(face, options)` and the two tests `Face::readGlyphs` makes on it; `none` = the face does not load -/
def glyphCacheAll (head hhea hmtx maxp glyf loca : Option (List Nat)) (gloc glat : List Nat) (preload : Bool) : Except Fault (Option GlyphCacheAll) := do
  match ← readGfxTables head hhea hmtx maxp glyf loca with
  | none => return none
  | some G =>
    match ← readGlyphTables gloc glat G.numGlyphs with
    | none => return none
    | some T =>
      let ng := max G.numGlyphs T.numGlyphsAttr
      if ng = 0 then return none
      let ok ← glyphsLoad G T gloc glat ng preload
      if !ok then return none
      let upem ← be16 G.head 18
      if upem = 0 then return none
      return some { numGlyphs := ng, numAttrs := T.numAttrs, hasBoxes := T.hasBoxes, upem }

structure AllTables where
  head : Option (List Nat)
  hhea : Option (List Nat)
  hmtx : Option (List Nat)
  maxp : Option (List Nat)
  glyf : Option (List Nat)
  loca : Option (List Nat)
  silf : List Nat
  gloc : List Nat
  glat : List Nat
  feat : List Nat
  sill : List Nat

def checkCmap (b : List Nat) : Except Fault Bool := do
  let v ← be16 b 0
  return decide (v = 0)

/-- is the cmap the options ask for usable?  `DirectCmap`: the table is there and has a Unicode BMP subtable that passes
`CheckCmapSubtable4`; `CachedCmap` (`gr_face_cacheCmap`): the table is there, and the whole cache is built from it (`Cmap.buildCached`) -/
def cmapUsable (cmap : Option (List Nat)) (cacheCmap : Bool) : Except (Sum Fault GrVerif.Fault) Bool :=
  match (checkedTable 12 checkCmap cmap).mapError Sum.inl with
  | .error e => .error e
  | .ok none => .ok false
  | .ok (some b) =>
    if cacheCmap then
      match (Cmap.buildCached (toBuf b)).mapError Sum.inr with
      | .error e => .error e
      | .ok _ => .ok true
    else
    match (Cmap.bmpSubtable (toBuf b)).mapError Sum.inr with
    | .error e => .error e
    | .ok st => .ok st.isSome

/-- `load_face(face, options)` with `cmapOK` = the cmap the options ask for is usable: `none` = `gr_make_face*` returns NULL -/
def loadFaceAll (t : AllTables) (preload cmapOK : Bool) : Except (Sum Fault GrVerif.Fault) (Option FaceSummary) := do
  if t.silf.length < 4 then return none
  match (glyphCacheAll t.head t.hhea t.hmtx t.maxp t.glyf t.loca t.gloc t.glat preload).mapError Sum.inl with
  | .error e => .error e
  | .ok none => return none
  | .ok (some gc) =>
    if !cmapOK then return none
    match (Feat.readFeats (toBuf t.feat)).mapError Sum.inr with
    | .error e => .error e
    | .ok none => return none
    | .ok (some fm) =>
      match (Feat.readSill (toBuf t.sill) fm).mapError Sum.inr with
      | .error e => .error e
      | .ok none => return none
      | .ok (some sm) =>
        match (readSilfTable t.silf gc.numGlyphs gc.numAttrs gc.hasBoxes fm.feats.length).mapError Sum.inl with
        | .error e => .error e
        | .ok (.error _) => return none
        | .ok (.ok ts) =>
          if ts.any (fun t => t.fixed.numPasses ≠ 0) then
            return some { numGlyphs := gc.numGlyphs, numFeatures := fm.feats.length, numLanguages := sm.langs.length, silfs := ts }
          else return none

/-- `gr_make_face*` with the cmap inside the model too -/
def loadFaceCmap (t : AllTables) (cmap : Option (List Nat)) (preload cacheCmap : Bool) : Except (Sum Fault GrVerif.Fault) (Option FaceSummary) :=
  match cmapUsable cmap cacheCmap with
  | .error e => .error e
  | .ok ok => loadFaceAll t preload ok

end GrVerif.Loader

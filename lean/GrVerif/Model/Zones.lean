/-!
# The interval set of the collision fixer (`Zones`, `src/Intervals.cpp`, `src/inc/Intervals.h`)   (C17)

Interval end points are integers (they are only ever copied, compared, `max`ed and `min`ed, so they stay on whatever
grid the inputs are on); the cost coefficients `c, sm, smx` and the positions `closest` returns are rationals.
`insert` and `remove` are the loops of `Zones::insert` / `Zones::remove` written as recursions over the vector:
the four `outcode` cases, the `separated` tests, `split_at`, `left_trim`, `operator+=`, the early `return`s.
-/
namespace GrVerif.Zones

structure Excl where
  x : Int
  xm : Int
  c : Rat
  sm : Rat
  smx : Rat
  «open» : Bool
  deriving Repr, DecidableEq

/-- `Exclusion::outcode(p)`: bit 1 = `p - xm >= 0`, bit 0 = `x - p > 0` -/
def outcode (e : Excl) (p : Int) : Nat := (if p ≥ e.xm then 2 else 0) + (if p < e.x then 1 else 0)

/-- `i += e` -/
def add (i e : Excl) : Excl := { i with c := i.c + e.c, sm := i.sm + e.sm, smx := i.smx + e.smx, «open» := false }

/-- the loop of `Zones::insert` after clamping -/
def insertGo (e : Excl) : List Excl → List Excl
  | [] => []
  | i :: rest =>
    if ¬ (e.x < e.xm) then i :: rest else
    let oca := outcode e i.x
    let ocb := outcode e i.xm
    if oca &&& ocb ≠ 0 then i :: insertGo e rest else
    match oca ^^^ ocb with
    | 0 => add i e :: insertGo { e with x := i.xm } rest                       -- e completely covers i
    | 1 =>                                                                      -- e overlaps on the rhs of i
      if i.xm = e.x then i :: insertGo e rest
      else if i.x ≠ e.x then
        { i with xm := e.x } :: add { i with x := e.x } e :: insertGo { e with x := i.xm } rest
      else add i e :: insertGo { e with x := i.xm } rest
    | 2 =>                                                                      -- e overlaps on the lhs of i
      if e.xm = i.x then i :: rest
      else if e.xm ≠ i.xm then add { i with xm := e.xm } e :: { i with x := e.xm } :: rest
      else add i e :: rest
    | _ =>                                                                      -- i completely covers e
      if e.xm ≠ i.xm then
        { i with xm := e.x } :: add { i with x := e.x, xm := e.xm } e :: { i with x := e.xm } :: rest
      else { i with xm := e.x } :: add { i with x := e.x } e :: rest

structure Zones where
  pos : Int
  posm : Int
  excl : List Excl
  deriving Repr

/-- `Zones::insert(e)` -/
def Zones.insert (z : Zones) (e : Excl) : Zones :=
  let e := { e with x := max e.x z.pos, xm := min e.xm z.posm }
  if e.x ≥ e.xm then z else { z with excl := insertGo e z.excl }

/-- the loop of `Zones::remove(x, xm)` after clamping -/
def removeGo (x xm : Int) : List Excl → List Excl
  | [] => []
  | i :: rest =>
    let oca := outcode i x
    let ocb := outcode i xm
    if oca &&& ocb ≠ 0 then i :: removeGo x xm rest else
    match oca ^^^ ocb with
    | 0 => if i.x ≠ x then { i with xm := x } :: { i with x := xm } :: rest else { i with x := xm } :: rest
    | 1 => { i with x := xm } :: rest
    | 2 => if i.x ≠ x then { i with xm := x } :: removeGo x xm rest else removeGo x xm rest
    | _ => removeGo x xm rest

/-- `Zones::remove(x, xm)` after the test for a range of no width: clamping and the loop -/
def Zones.removeCore (z : Zones) (x xm : Int) : Zones :=
  let x := max x z.pos
  let xm := min xm z.posm
  if x ≥ xm then z else { z with excl := removeGo x xm z.excl }

/-- `Zones::remove(x, xm)` = `exclude`: a range of no width first (`if (_pos >= _posm)`: the single point goes when it lies strictly
inside what is removed), then the clamping and the loop -/
def Zones.remove (z : Zones) (x xm : Int) : Zones :=
  if z.pos ≥ z.posm then (if x < z.pos ∧ xm > z.posm then { z with excl := [] } else z) else z.removeCore x xm

/-- `Exclusion::weighted<XY>` / `<SD>` -/
def weightedXY (xmin xmax : Int) (f a0 m xi c : Rat) : Excl :=
  ⟨xmin, xmax, m * xi * xi + f * a0 * a0 + c, m + f, m * xi, false⟩
def weightedSD (xmin xmax : Int) (f a0 m xi ai c : Rat) (nega : Bool) : Excl :=
  let xia := if nega then xi - ai else xi + ai
  ⟨xmin, xmax, (1/4 : Rat) * (m * xia * xia + 2 * f * a0 * a0) + c, (1/4 : Rat) * (m + 2 * f), (1/4 : Rat) * m * xia, false⟩

/-- `Zones::initialise<O>(xmin, xmax, margin_len, margin_weight, a0)` -/
def initialise (sd : Bool) (xmin xmax : Int) (a0 : Rat) : Zones :=
  let e := if sd then weightedSD xmin xmax 1 a0 0 0 0 0 false else weightedXY xmin xmax 1 a0 0 0 0
  ⟨xmin, xmax, [{ e with «open» := true }]⟩

/-- `Exclusion::cost(p)` -/
def Excl.cost (e : Excl) (p : Rat) : Rat := (e.sm * p - 2 * e.smx) * p + e.c

/-- `Exclusion::test_position(origin)`: a point of `[x, xm]`, or `none` for the NaN that `smx / sm` yields when both
are zero (IEEE: `0/0`); a zero `sm` with non-zero `smx` gives ±∞, which the clamping turns into an end point. -/
def Excl.testPosition (e : Excl) (origin : Rat) : Option Rat :=
  if e.sm < 0 then
    let res : Rat := e.x
    let cl := e.cost e.x
    let (cl, res) := if (e.x : Rat) < origin ∧ (e.xm : Rat) > origin then
        (if e.cost origin < cl then (e.cost origin, origin) else (cl, res)) else (cl, res)
    let cr := e.cost e.xm
    some (if cl > cr then e.xm else res)
  else if e.sm = 0 then
    (if e.smx < 0 then some e.x else if e.smx > 0 then some e.xm else none)
  else
    let zerox := e.smx / e.sm + origin
    some (if zerox < e.x then e.x else if zerox > e.xm then e.xm else zerox)

/-- `Exclusion::track_cost(best_cost, best_pos, origin)`: `best = none` stands for `FLT_MAX`; returns (stop?, best).
A NaN position makes every comparison false: nothing is updated and the scan goes on. -/
def Excl.trackCost (e : Excl) (best : Option (Rat × Rat)) (origin : Rat) : Bool × Option (Rat × Rat) :=
  match e.testPosition origin with
  | none => (false, best)
  | some p =>
    let localc := e.cost (p - origin)
    match best with
    | none => (false, some (localc, p))
    | some (bc, bp) =>
      if e.«open» ∧ localc > bc then (true, best)
      else if localc < bc then (false, some (localc, p)) else (false, best)

/-- `Zones::find_exclusion_under(x)` → index -/
def findUnder (v : List Excl) (x : Int) : Nat → Nat → Nat → Nat
  | 0, l, _ => l
  | fuel + 1, l, h =>
    if l < h then
      let p := (l + h) / 2
      match v[p]? with
      | none => l
      | some e =>
        match outcode e x with
        | 0 => p
        | 1 => findUnder v x fuel l p
        | _ => findUnder v x fuel (p + 1) h
    else l

def scan (origin : Rat) : List Excl → Option (Rat × Rat) → Option (Rat × Rat)
  | [], best => best
  | e :: rest, best =>
    let (stop, best) := e.trackCost best origin
    if stop then best else scan origin rest best

/-- the two scans of `Zones::closest`: `none` = nothing beat `FLT_MAX` -/
def Zones.closestBest (z : Zones) (origin : Int) : Option (Rat × Rat) :=
  let start := findUnder z.excl origin (z.excl.length + 1) 0 z.excl.length
  let best := scan origin (z.excl.drop start) none
  scan origin (z.excl.take start).reverse best

/-- `Zones::closest(origin, cost)` for an integer origin → `(best_x, cost)`; `(0, -1)` when nothing was found -/
def Zones.closest (z : Zones) (origin : Int) : Rat × Rat :=
  match z.closestBest origin with
  | none => (0, -1)
  | some (c, p) => (p, c)

/-- one operation on an interval set -/
inductive Op where
  | exclude (a b : Int)
  | weighted (e : Excl)
  deriving Repr

def Zones.step (z : Zones) : Op → Zones
  | .exclude a b => z.remove a b
  | .weighted e => z.insert e

end GrVerif.Zones

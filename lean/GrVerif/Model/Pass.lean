import GrVerif.Model.Action
import GrVerif.Model.Assoc
import GrVerif.Model.Position
/-!
# The pass engine   (C06, C02)

`Pass::runFSM`, `FiniteStateMachine::Rules::accumulate_rules`, `Pass::testConstraint`, `Pass::findNDoRule`,
`Pass::adjustSlot`, `Pass::runGraphite` (rule loop with `m_iMaxLoop` / highwater) and the pass sequencing of
`Silf::runGraphite` / `Face::runGraphite` (substitution passes, `associateChars`, positioning passes), transcribed from
`src/Pass.cpp`, `src/inc/Rule.h`, `src/Silf.cpp`, `src/Face.cpp`.

Scope of this model: left-to-right fonts and requests (no `reverseSlots`, no bidi pass, no mirroring), no pass constraint,
no collision passes; positions are not computed.  What it yields is the glyph stream after all passes: glyph ids,
association, attachments.
-/
namespace GrVerif.Pass
open GrVerif.Vm GrVerif.Seg GrVerif.Action

structure Rule where
  sort : Nat
  pre : Nat
  constraint : List Nat        -- code bytes, `[]` = no constraint
  action : List Nat
  deriving Repr, Inhabited

structure PassT where
  maxLoop : Nat
  minPre : Nat
  maxPre : Nat
  numColumns : Nat
  numTransition : Nat
  numStates : Nat
  numSuccess : Nat
  cols : Array Nat               -- per glyph id, `0xFFFF` = the glyph is in no column
  starts : Array Nat
  trans : Array (Array Nat)      -- `numTransition` rows of `numColumns` states
  ruleMap : Array (List Nat)     -- per success state: rule numbers in table order
  rules : Array Rule
  reverseDir : Bool := false     -- `m_isReverseDir` (bit 5 of the pass flags): the pass runs against the font's direction
  pconstraint : List Nat := []   -- the bytecode of the pass constraint (`m_cPConstraint`), empty = none
  deriving Repr, Inhabited

def PassT.successStart (p : PassT) : Nat := p.numStates - p.numSuccess

def MAX_RULES : Nat := 128
def MAX_SLOTS : Nat := 64

/-- `RuleEntry::operator<`: longer sort key first, then the earlier rule -/
def ruleLt (p : PassT) (a b : Nat) : Bool :=
  let sa := (p.rules.getD a default).sort
  let sb := (p.rules.getD b default).sort
  sa > sb || (sa == sb && a < b)

/-- insertion sort of a state's rule list (`qsort(…, cmpRuleEntry)` at load time; the keys are distinct per rule) -/
def sortRules (p : PassT) (rs : List Nat) : List Nat :=
  rs.foldl (fun acc r => acc.takeWhile (fun x => ruleLt p x r) ++ r :: acc.dropWhile (fun x => ruleLt p x r)) []

/-- the merge of `accumulate_rules`: two lists in precedence order are merged (equal entries once) into at most `cap`
output entries -/
def mergeCap (p : PassT) : Nat → List Nat → List Nat → List Nat
  | 0, _, _ => []
  | _ + 1, [], [] => []
  | c + 1, [], b :: r => b :: mergeCap p c [] r
  | c + 1, a :: l, [] => a :: mergeCap p c l []
  | c + 1, a :: l, b :: r =>
    if ruleLt p a b then a :: mergeCap p c l (b :: r)
    else if ruleLt p b a then b :: mergeCap p c (a :: l) r
    else a :: mergeCap p c l r

/-- `FiniteStateMachine::Rules::accumulate_rules(state)` -/
def accumulate (p : PassT) (cur : List Nat) (state : List Nat) : List Nat :=
  if state.isEmpty then cur else mergeCap p MAX_RULES cur state

/-- the state machine proper (`Pass::runFSM`'s do-loop) on the glyph ids of the slots ahead of the start slot.
Returns `(ok, slots pushed inside the loop, whether the slot after them is pushed as well, rules in precedence order)`. -/
def fsmScan (p : PassT) : List Nat → Nat → Nat → List Nat → Nat → Bool × Nat × Bool × List Nat
  | [], _, _, rules, pushed => (true, pushed, true, rules)
  | g :: rest, state, free, rules, pushed =>
    let col := p.cols.getD g 0xFFFF
    if g ≥ p.cols.size ∨ col = 0xFFFF then (true, pushed + 1, false, rules)      -- the glyph is in no column
    else if free - 1 = 0 then (false, pushed + 1, false, rules)                  -- `--free_slots == 0`
    else if state ≥ p.numTransition then (true, pushed + 1, false, rules)
    else
      let state' := (p.trans.getD state #[]).getD col 0
      let rules := if state' ≥ p.successStart then accumulate p rules (sortRules p (p.ruleMap.getD (state' - p.successStart) [])) else rules
      if state' ≠ 0 ∧ ¬ rest.isEmpty then fsmScan p rest state' (free - 1) rules (pushed + 1)
      else (true, pushed + 1, true, rules)

/-- the slots from `s` on, following `next`, at most `n` of them -/
def ahead (seg : Seg) : Nat → Option Nat → List Nat
  | 0, _ => []
  | _, none => []
  | n + 1, some s => s :: ahead seg n (seg.get s).next

/-! ### `Segment::reverseSlots`

The C++ relinks the stream in place.  Its effect on the order of the stream: leading slots of bidi class 16 (non-spacing
marks) stay in front; behind them the remaining slots are grouped into a base with the marks that follow it, and the groups
come out in reverse order, the marks of a group still behind their base in their original order.  The model computes that
order (`revOrder`) and relinks the stream accordingly (`Seg.relink`); `m_dir` has its bit 6 flipped first, and runs of at
most one slot or of marks only are left as they are. -/

/-- `cur`: the current group, reversed; `out`: the groups already placed, in final order -/
def revAcc (mark : Nat → Bool) : List Nat → List Nat → List Nat → List Nat
  | [], cur, out => cur.reverse ++ out
  | x :: xs, cur, out => if mark x then revAcc mark xs (x :: cur) out else revAcc mark xs [x] (cur.reverse ++ out)

def revOrder (mark : Nat → Bool) (l : List Nat) : List Nat :=
  l.takeWhile mark ++ revAcc mark (l.dropWhile mark) [] []

/-- link the slots of `order` in that order: `prev`/`next` of each, `first`, `last` -/
def relinkGo (s : Seg) : Option Nat → List Nat → Seg
  | _, [] => s
  | p, x :: rest => relinkGo (s.upd x fun sl => (sl.setPrev p).setNext rest.head?) (some x) rest

def _root_.GrVerif.Seg.Seg.relink (s : Seg) (order : List Nat) : Seg :=
  ((relinkGo s none order).setFirst order.head?).setLast order.getLast?

def _root_.GrVerif.Seg.Seg.flipDir (s : Seg) : Seg := { s with dir := s.dir ^^^ 64 }

/-- `Segment::reverseSlots()`; `mark i` = "slot `i` has bidi class 16" -/
def _root_.GrVerif.Seg.Seg.reverseSlots (s : Seg) (mark : Nat → Bool) : Seg :=
  let s := s.flipDir
  if s.first = s.last then s else
  let l := ahead s (2 * s.slots.size + 8) s.first
  if l.all mark then s else s.relink (revOrder mark l)

/-- `FiniteStateMachine::reset`: walk back over at most `maxPre` predecessors; `(start slot, context length)` -/
def fsmBack (seg : Seg) (maxPre : Nat) : Nat → Nat → Nat → Nat × Nat
  | 0, s, ctxt => (s, ctxt)
  | f + 1, s, ctxt =>
    if ctxt = maxPre then (s, ctxt) else
    match (seg.get s).prev with
    | some q => fsmBack seg maxPre f q (ctxt + 1)
    | none => (s, ctxt)

/-- the cells the matcher pushes: the slots pushed in the loop, then (when the loop ran to its end) the slot after them,
possibly null -/
def fsmCells (window : List Nat) (pushed : Nat) (more : Bool) : List (Option Nat) :=
  (window.take pushed).map some ++ (if more then [window[pushed]?] else [])

/-- the cells go into the slot map from cell 1 on -/
def fillMap (m : Array (Option Nat)) (cells : List (Option Nat)) : Array (Option Nat) :=
  (cells.zipIdx).foldl (fun (m : Array (Option Nat)) (x : Option Nat × Nat) => m.setIfInBounds (x.2 + 1) x.1) m

/-- `SlotMap::reset` and what the matcher then records -/
def _root_.GrVerif.Seg.Ctx.resetMap (c : Ctx) (smap : Array (Option Nat)) (size context : Nat) : Ctx :=
  { c with smap := smap, size := size, context := context }

/-- `FiniteStateMachine::reset` + `Pass::runFSM`: `(matched, context with the slot map filled, rules in precedence order)` -/
def runFSM (p : PassT) (c : Ctx) (slot : Nat) : Bool × Ctx × List Nat :=
  let bc := fsmBack c.seg p.maxPre (p.maxPre + 1) slot 0
  let smap0 : Array (Option Nat) := (Array.replicate (MAX_SLOTS + 2) none).setIfInBounds 0 (c.seg.get bc.1).prev
  if bc.2 < p.minPre then (false, c.resetMap smap0 0 bc.2, []) else
  let state0 := p.starts.getD (p.maxPre - bc.2) 0
  let window := ahead c.seg (MAX_SLOTS + 1) (some bc.1)
  let r := fsmScan p (window.map fun s => (c.seg.get s).gid) state0 MAX_SLOTS [] 0
  let cells := fsmCells window r.2.1 r.2.2.1
  (r.1, c.resetMap (fillMap smap0 cells) cells.length bc.2, r.2.2.2)

/-- code of a rule, decoded: instructions (with the loader's `temp_copy` insertions for action code), `deletes`, `max_ref`, data bytes -/
structure Code where
  instrs : List Instr
  deletes : Bool
  maxRef : Nat
  data : List Nat

def mkCode (bytes : List Nat) (isAction : Bool) : Option Code :=
  match decode (bytes.length + 1) bytes with
  | none => none
  | some is0 =>
    let (is, dl) := if isAction then insertTemps is0 else (is0, false)
    some { instrs := is, deletes := dl, maxRef := maxRefOf is0, data := is0.flatMap (·.2) }

/-- `Machine::Code::run` for constraint code with the `map` register at cell `mapCell` -/
def runConstraint (k : Code) (c : Ctx) (mapCell : Int) : Except String (Int × Status) :=
  if c.size ≤ k.maxRef + c.context ∨ (c.smap.getD (k.maxRef + c.context + 1) none).isNone then .ok (1, .slot_offset_out_bounds) else
  match runLoop k.instrs { vm := initVm k.data, ctx := enterCtx (c.setMap mapCell) } with
  | .fault w => .error w
  | .normal s =>
    match epilogue { s.vm with status := if s.ctx.status ≠ .finished then s.ctx.status else s.vm.status } with
    | .error _ => .error "stack"
    | .ok rs => .ok rs

/-- `Pass::testConstraint`: `(passes, machine status)` -/
def testConstraint (r : Rule) (c : Ctx) : Except String (Bool × Status) :=
  if r.sort + c.context < r.pre ∨ r.sort + c.context - r.pre > c.size ∨ c.context < r.pre then .ok (false, .finished) else
  let base := 1 + c.context - r.pre                -- cell index of `map`
  if (c.smap.getD (base + r.sort - 1) none).isNone then .ok (false, .finished) else
  if r.constraint.isEmpty then .ok (true, .finished) else
  match mkCode r.constraint false with
  | none => .error "undecodable constraint"
  | some k =>
    let rec go (n : Nat) (cell : Nat) : Except String (Bool × Status) :=
      match n with
      | 0 => .ok (true, .finished)
      | n + 1 =>
        if (c.smap.getD cell none).isNone then go n (cell + 1) else
        match runConstraint k c cell with
        | .error w => .error w
        | .ok (ret, st) =>
          if ret = 0 ∨ st ≠ .finished then .ok (false, st) else go n (cell + 1)
    go r.sort base

/-- `if (highpassed && highwater == slot) highpassed(false)` and its mirror image -/
def _root_.GrVerif.Seg.Ctx.setHighpassed (c : Ctx) (b : Bool) : Ctx := { c with highpassed := b }

/-- `Pass::adjustSlot` with a null `slot_out`: start from the last slot (and one step further forward) when the high-water
mark has been passed or there is none, otherwise from the first slot (and one step further back) -/
def adjustStart (c : Ctx) (delta : Int) : Ctx × Option Nat × Int :=
  if c.highpassed ∨ c.highwater.isNone then
    ((if c.highwater.isNone ∨ c.highwater = c.seg.last then c.setHighpassed false else c), c.seg.last, delta + 1)
  else (c, c.seg.first, delta - 1)

/-- `while (++delta <= 0 && slot_out)` -/
def adjustBack : Nat → Ctx → Int → Option Nat → Ctx × Option Nat
  | 0, c, _, so => (c, so)
  | _, c, _, none => (c, none)
  | f + 1, c, d, some s =>
    if d + 1 ≤ 0 then
      adjustBack f (if c.highpassed ∧ c.highwater = (c.seg.get s).prev then c.setHighpassed false else c) (d + 1) (c.seg.get s).prev
    else (c, some s)

/-- `while (--delta >= 0 && slot_out)` -/
def adjustFwd : Nat → Ctx → Int → Option Nat → Ctx × Option Nat
  | 0, c, _, so => (c, so)
  | _, c, _, none => (c, none)
  | f + 1, c, d, some s =>
    if d - 1 ≥ 0 then
      adjustFwd f (if some s = c.highwater then c.setHighpassed true else c) (d - 1) (c.seg.get s).next
    else (c, some s)

/-- `Pass::adjustSlot` -/
def adjustSlot (c : Ctx) (delta : Int) (slotOut : Option Nat) : Ctx × Option Nat :=
  let st : Ctx × Option Nat × Int :=
    match slotOut with
    | some _ => (c, slotOut, delta)
    | none => adjustStart c delta
  if st.2.2 < 0 then adjustBack (st.2.2.natAbs + 1) st.1 st.2.2 st.2.1
  else if st.2.2 > 0 then adjustFwd (st.2.2.natAbs + 1) st.1 st.2.2 st.2.1
  else (st.1, st.2.1)

/-- the search of `findNDoRule` for the first rule (in precedence order) whose constraint passes; a machine status other
than `finished` ends the search -/
def pickRule (p : PassT) (c : Ctx) : List Nat → Except String (Option Nat × Status)
  | [] => .ok (none, .finished)
  | r :: rest =>
    match testConstraint (p.rules.getD r default) c with
    | .error w => .error w
    | .ok (true, _) => .ok (some r, .finished)
    | .ok (false, st) => if st ≠ .finished then .ok (none, st) else pickRule p c rest

/-- `Pass::findNDoRule`: `(context, new cursor, machine status)` -/
def findNDoRule (p : PassT) (c : Ctx) (slot : Nat) : Except String (Ctx × Option Nat × Status) :=
  let (ok, c, rules) := runFSM p c slot
  let advance : Except String (Ctx × Option Nat × Status) := .ok (c, (c.seg.get slot).next, .finished)
  if ¬ ok then advance else
  match pickRule p c rules with
  | .error w => .error w
  | .ok (none, st) => if st ≠ .finished then .ok (c, some slot, st) else advance
  | .ok (some r, _) =>
    let rule := p.rules.getD r default
    if rule.action.isEmpty then
      -- `if (!*codeptr) return 0;` then adjustSlot(0, …)
      .ok (c, some slot, .finished)
    else
    match mkCode rule.action true with
    | none => .error "undecodable action"
    | some k =>
      match doAction k.instrs k.deletes k.maxRef k.data c with
      | .error w => .error w
      | .ok (ret, status, slotOut, c) =>
        if status ≠ .finished then .ok (c, none, status) else
        let (c, so) := adjustSlot c ret slotOut
        .ok (c, so, .finished)

/-- `smap.highwater(s->next())` (which also clears `highpassed`) -/
def _root_.GrVerif.Seg.Ctx.restartAt (c : Ctx) (s : Nat) : Ctx := { c with highwater := (c.seg.get s).next, highpassed := false }

/-- `Silf::runGraphite`: a fresh slot map and machine for a run of passes -/
def _root_.GrVerif.Seg.Ctx.beginRange (c : Ctx) (limit : Int) : Ctx :=
  { c with maxSize := limit, highwater := none, highpassed := false, status := .finished }

/-- the rule loop of `Pass::runGraphite`; returns the final context (`none` = the machine stopped with a status other than
`finished`) and the number of iterations of the do-loop -/
def ruleLoop (p : PassT) : Nat → Ctx → Nat → Int → Nat → Except String (Option Ctx × Nat)
  | 0, _, _, _, _ => .error "rule loop fuel exhausted"
  | f + 1, c, s, lc, it =>
    match findNDoRule p c s with
    | .error w => .error w
    | .ok (c, s', st) =>
      if st ≠ .finished then .ok (none, it + 1) else
      match s' with
      | none => .ok (some c, it + 1)
      | some s1 =>
        let hit := (some s1 = c.highwater) ∨ c.highpassed
        let lc' := if hit then lc else lc - 1
        if hit ∨ lc' = 0 then
          let s2 : Option Nat := if lc' = 0 then c.highwater else some s1      -- `if (!lc) s = highwater;`
          match s2 with
          | some s3 => ruleLoop p f (c.restartAt s3) s3 p.maxLoop (it + 1)
          | none => .ok (some c, it + 1)
        else ruleLoop p f c s1 lc' (it + 1)

/-- the hook's bookkeeping: worst ratio of iterations to bound seen so far -/
def noteLoop (c : Ctx) (it bound : Nat) : Ctx :=
  let c := { c with vCalls := c.vCalls + 1, vExceeded := c.vExceeded || decide (it > bound) }
  if c.vBound = 0 ∨ it * c.vBound > c.vIter * bound then { c with vIter := it, vBound := bound } else c

/-- `Pass::runGraphite` (rule loop only). `none` = the machine stopped with a status other than `finished`. -/
def runPass (p : PassT) (c : Ctx) (fuel : Nat) : Except String (Option Ctx) :=
  match c.seg.first with
  | none => .ok (some c)
  | some s0 =>
    if p.rules.size = 0 then .ok (some c) else
    let c := c.restartAt s0
    let bound := (if p.maxLoop = 0 then 1 else p.maxLoop) * (c.seg.numGlyphs.toNat + c.maxSize.toNat + 2)
    -- (the recursion of `ruleLoop` needs fuel; `bound` iterations are provably enough – Proofs/LoopBound – so the `fuel`
    -- argument only matters when it is larger)
    match ruleLoop p (max fuel (bound + 1)) c s0 p.maxLoop 0 with
    | .error w => .error w
    | .ok (none, _) => .ok none
    | .ok (some c, it) => .ok (some (noteLoop c it bound))

/-- `Segment::getSlotBidiClass(s) == 16`: the class is glyph attribute `aBidi` of the slot's glyph, as an `int8` (the cached
copy in the slot is reset by `setGlyph` and copied with the glyph id, so it is always this value) -/
def isMark (c : Ctx) (seg : Seg) (i : Nat) : Bool := Vm.i8 (glyphAttr c (seg.get i).gid c.aBidi) = 16

/-- `Pass::testPassConstraint`: the pass constraint is run on the first slot of the stream, in a slot map that holds just that slot
(`reset(*first, 0); pushSlot(first)`: size 1, no context, `map` at cell 1).  `(passes, machine status)`; a pass without a constraint
passes and leaves the status alone. -/
def testPassConstraint (p : PassT) (c : Ctx) (s0 : Nat) : Except String (Bool × Status) :=
  if p.pconstraint.isEmpty then .ok (true, .finished) else
  match mkCode p.pconstraint false with
  | none => .error "undecodable pass constraint"
  | some k =>
    let smap0 : Array (Option Nat) := ((Array.replicate (MAX_SLOTS + 2) none).setIfInBounds 0 (c.seg.get s0).prev).setIfInBounds 1 (some s0)
    match runConstraint k (c.resetMap smap0 1 0) 1 with
    | .error w => .error w
    | .ok (ret, st) => .ok (decide (ret ≠ 0) && decide (st = .finished), st)

/-- the direction decision of `Silf::runGraphite` for one pass (no bidi pass: `lbidi == 0xFF`), then `Pass::runGraphite`: the pass
constraint decides whether the pass runs at all – it is tested on the stream as it stands, before the reversal –, then the reversal
`reverse = seg->currdir() != ((m_dir & 1) ^ pass.reverseDir())`, then the rules; nothing happens on an empty segment.  A pass
constraint that leaves the machine in a state other than `finished` makes `Silf::runGraphite` give up (`none`). -/
def runPassDir (p : PassT) (c : Ctx) (fuel : Nat) (ar : Bool := true) : Except String (Option Ctx) :=
  match c.seg.first with
  | none => .ok (some c)
  | some s0 =>
    match testPassConstraint p c s0 with
    | .error w => .error w
    | .ok (ok, st) =>
      if st ≠ .finished then .ok none else
      if !ok then .ok (some c) else
      -- `ar`: the call of `Silf::runGraphite` this pass belongs to does not contain the bidi step (`lbidi == 0xFF`)
      let reverse := ar && (c.seg.currdir != ((c.dir % 2 == 1) != p.reverseDir))
      runPass p (if reverse then c.withSeg (c.seg.reverseSlots (isMark c c.seg)) else c) fuel

/-- the passes `lo … hi-1` of one call of `Silf::runGraphite`, from a context that is already set up; `limit` is the call's
`maxSize = slotCount * MAX_SEG_GROWTH_FACTOR`: after each pass the segment may not have outgrown it -/
def runPasses (passes : Array PassT) (limit : Int) (ar : Bool) (c : Ctx) (lo hi : Nat) (fuel : Nat) : Except String (Option Ctx) :=
  (List.range (hi - lo)).foldl (fun (acc : Except String (Option Ctx)) k =>
    match acc with
    | .ok (some c) =>
      (match runPassDir (passes.getD (lo + k) default) c fuel ar with
       | .ok (some c) => if c.seg.numGlyphs > 0 ∧ c.seg.numGlyphs > limit then .ok none else .ok (some c)
       | o => o)
    | o => o) (.ok (some c))

/-- one call of `Silf::runGraphite(seg, lo, hi)` on a font without a bidi pass: a fresh slot map and machine, `maxSize = slotCount *
MAX_SEG_GROWTH_FACTOR`, every pass turns the stream into the direction it wants -/
def runRange (passes : Array PassT) (c : Ctx) (lo hi : Nat) (fuel : Nat) : Except String (Option Ctx) :=
  runPasses passes (c.seg.numGlyphs * 64) true (c.beginRange (c.seg.numGlyphs * 64)) lo hi fuel

/-- `Segment::doMirror(aMirror)`: every slot of the stream whose glyph has a mirror glyph (glyph attribute `aMirror`, read as an
`unsigned short`) takes that glyph – unless the request carries `gr_nomirror` (bit 2 of the direction) and the glyph's attribute
`aMirror + 1` is set -/
def doMirror (c : Ctx) (aMirror : Nat) : Seg :=
  (ahead c.seg (2 * c.seg.slots.size + 8) c.seg.first).foldl (fun (s : Seg) i =>
    let gid := (s.get i).gid
    let g := (glyphAttr c gid aMirror % 65536).toNat
    if g ≠ 0 ∧ ((c.seg.dir / 4) % 2 = 0 ∨ glyphAttr c gid (aMirror + 1) = 0) then s.upd i fun sl => sl.setGlyph c.gadv g else s) c.seg

/-- the stream is turned into the font's direction -/
def turnStep (c : Ctx) : Ctx :=
  if c.seg.currdir != (c.dir % 2 == 1) then c.withSeg (c.seg.reverseSlots (isMark c c.seg)) else c

/-- the bidi step of `Silf::runGraphite` (what is left of the bidi pass): the stream is turned into the font's direction, and for a
font with a mirror attribute and a request with `gr_rtl | gr_nobidi` the glyphs are mirrored -/
def bidiStep (c : Ctx) (aMirror : Nat := 0) : Ctx :=
  if aMirror ≠ 0 ∧ (turnStep c).seg.dir % 4 = 3 then (turnStep c).withSeg (doMirror (turnStep c) aMirror) else turnStep c

/-- one call of `Silf::runGraphite(seg, lo, hi, dobidi)` on a font whose bidi step sits in front of pass `bPass` (`0xFF`: none):
the step belongs to this call when `lo < bPass ≤ hi`, or when `bPass = lo` and the caller asks for it; a call that contains it runs
its passes without turning the stream (`lbidi != 0xFF`), the step itself turns it once.  Every pass of the range runs exactly once. -/
def runPhase (passes : Array PassT) (bPass : Nat) (c : Ctx) (lo hi : Nat) (dobidi : Bool) (fuel : Nat) (aMirror : Nat := 0) : Except String (Option Ctx) :=
  let limit : Int := c.seg.numGlyphs * 64
  let c := c.beginRange limit
  if bPass ≠ 0xFF ∧ ((lo < bPass ∧ bPass ≤ hi) ∨ (dobidi = true ∧ lo = bPass)) then
    match runPasses passes limit false c lo bPass fuel with
    | .ok (some c1) => runPasses passes limit false (bidiStep c1 aMirror) bPass hi fuel
    | o => o
  else runPasses passes limit true c lo hi fuel

structure Font where
  passes : Array PassT
  ipos : Nat                       -- first positioning pass
  classes : Array (List Nat)
  gattr : Array (Array Int)
  gadv : Array Int                 -- advance widths (hmtx)
  cmap : Nat → Nat
  silfDir : Nat := 0               -- `Silf::m_dir` (the direction byte of the table minus one): 1 = a right-to-left font
  bPass : Nat := 0xFF              -- `Silf::m_bPass`: the bidi step sits in front of this pass (0xFF: the font has none)
  aMirror : Nat := 0               -- `Silf::m_aMirror`: the glyph attribute that holds a glyph's mirror glyph (0: the font has none)
  aBidi : Nat := 3                 -- the glyph attribute holding the bidi class

/-- `Segment::read_text`: one slot per character, appended in order -/
def initSeg (font : Font) (text : List Nat) (dir : Nat := 0) : Seg :=
  let n := text.length
  text.zipIdx.foldl (fun s (x : Nat × Nat) => s.appendSlot x.2 (font.cmap x.1) 64 (font.gadv.getD (font.cmap x.1) 0))
    { numGlyphs := n, numChars := n, slots := Array.replicate (n + 10) {}, free := List.range (n + 10), bufSize := Nat.log2 n + 1, dir := dir }

def initCtx (font : Font) (text : List Nat) (dir : Nat := 0) : Ctx :=
  { seg := initSeg font text dir, smap := Array.replicate (MAX_SLOTS + 2) none, size := 0, context := 0, maxSize := (text.length * 64 : Nat),
    dir := font.silfDir, map := 0, is := none, classes := font.classes, gattr := font.gattr, gadv := font.gadv, aBidi := font.aBidi }

/-- `Segment::associateChars` on the stream (and the renumbering of the slots' `index`); `none` = a char-info access out of range -/
def reassoc (seg : Seg) (n : Nat) : Option (Seg × List Assoc.CI) :=
  let stream := ahead seg (2 * seg.slots.size + 8) seg.first
  let pairs := stream.map fun i => ((seg.get i).before, (seg.get i).after)
  let r := Assoc.associateChars n pairs
  if r.2.2 then none else
  let seg' := (stream.zip r.1).foldl (fun s (x : Nat × Int × Int) => s.upd x.1 fun sl => (sl.setBefore x.2.1).setAfter x.2.2) seg
  let seg' := stream.zipIdx.foldl (fun s (x : Nat × Nat) => s.upd x.1 fun sl => sl.setIndex x.2) seg'
  some (seg', r.2.1)

/-- `Face::runGraphite` before the first pass: a request with `gr_rtl | gr_nobidi` on a font that has a mirror attribute but no bidi
step is mirrored here -/
def startMirror (font : Font) (c : Ctx) : Ctx :=
  if c.seg.dir % 4 = 3 ∧ font.bPass = 0xFF ∧ font.aMirror ≠ 0 then c.withSeg (doMirror c font.aMirror) else c

/-- the whole pipeline up to `Segment::finalise`: text → slots → (mirroring) → substitution passes → `associateChars` → positioning
passes, with the bidi step where the font puts it; `dir` is the direction argument of `gr_make_seg` (bit 0: right to left, bit 1:
`gr_nobidi`, bit 2: `gr_nomirror`), the font's own direction is `font.silfDir`; each pass finds the stream in the direction it wants
(`runPassDir`) unless the call contains the bidi step (`runPhase`). -/
def shape (font : Font) (text : List Nat) (fuel : Nat) (dir : Nat := 0) : Except String (Option (Ctx × List Assoc.CI)) :=
  if text.length = 0 then .ok (some ({ seg := {}, smap := #[], size := 0, context := 0, maxSize := 0, map := 0, is := none }, [])) else
  match runPhase font.passes font.bPass (startMirror font (initCtx font text dir)) 0 font.ipos true fuel font.aMirror with
  | .error w => .error w
  | .ok none => .ok none
  | .ok (some c) =>
    match reassoc c.seg text.length with
    | none => .error "associateChars: char-info access out of range"
    | some (seg', ci) =>
      match runPhase font.passes font.bPass (c.withSeg seg') font.ipos font.passes.size false fuel font.aMirror with
      | .error w => .error w
      | .ok none => .ok none
      | .ok (some c) => .ok (some (c, ci))

/-- the reversal at the end of `Segment::finalise(font, true)`: `if (currdir() != (m_dir & 1)) reverseSlots();` -/
def finaliseDir (c : Ctx) : Seg :=
  if c.seg.currdir != (c.seg.dir % 2 == 1) then c.seg.reverseSlots (isMark c c.seg) else c.seg

/-- one step of `Segment::linkClusters`: `ls->sibling(s)` (left to right) or `s->sibling(ls)` (right to left) -/
def linkStep (dir : Nat) (acc : Seg × Nat) (s : Nat) : Seg × Nat :=
  if dir % 2 = 1 then ((sibling acc.1 (acc.1.slots.size + 1) s (some acc.2)).2, s)
  else ((sibling acc.1 (acc.1.slots.size + 1) acc.2 (some s)).2, s)

/-- `Segment::linkClusters(m_first, m_last)` (the last step of `Segment::finalise`): the bases of the stream are chained
through their `sibling` pointers -/
def linkClusters (seg : Seg) (dir : Nat) : Seg :=
  let stream := ahead seg (2 * seg.slots.size + 8) seg.first
  match stream.filter fun i => (seg.get i).parent.isNone with
  | [] => seg
  | b0 :: rest => ((b0 :: rest).foldl (linkStep dir) (seg, b0)).1

end GrVerif.Pass

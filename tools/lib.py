#!/usr/bin/env python3
"""Shared machinery of the graphite verification checks (see DESIGN.md §2-§4, §9).

Everything derives its paths from this file's location; nothing assumes that lean/.lake or any
binary already exists.  Scratch build output lives under /var/tmp/grverif-cache keyed by a hash of
/repo's current working tree, so a changed tree is always rebuilt and stale trees are evicted.
"""
import concurrent.futures as cf
import fcntl
import hashlib
import json
import os
import random
import re
import shutil
import subprocess
import sys
import tempfile
import time
from pathlib import Path

ROOT = Path(__file__).resolve().parent.parent
REPO = Path(os.environ.get("VERIF_REPO", "/repo"))
LEAN = ROOT / "lean"
CACHE = Path(os.environ.get("VERIF_CACHE", "/var/tmp/grverif-cache"))
EVID = ROOT / "evidence"
NCPU = os.cpu_count() or 4
GUARD = "GRAPHITE2_VERIF"

ALLOWED_AXIOMS = {"propext", "Classical.choice", "Quot.sound"}
FORBIDDEN = re.compile(r"\b(sorry|admit|native_decide|bv_decide|implemented_by)\b|^\s*axiom\s|\bunsafe\s|maxHeartbeats\s+0\b")


def sh(cmd, **kw):
    return subprocess.run(cmd, shell=isinstance(cmd, str), stdout=subprocess.PIPE, stderr=subprocess.STDOUT,
                          text=True, **kw)


# ----------------------------------------------------------------------------------------------
# locking (several checks may be started at once; lake and the object cache are shared)
class Lock:
    def __init__(self, name):
        CACHE.mkdir(parents=True, exist_ok=True)
        self.path = CACHE / (name + ".lock")

    def __enter__(self):
        self.f = open(self.path, "w")
        fcntl.flock(self.f, fcntl.LOCK_EX)
        return self

    def __exit__(self, *a):
        fcntl.flock(self.f, fcntl.LOCK_UN)
        self.f.close()


# ----------------------------------------------------------------------------------------------
# the C++ side: built from /repo's current working tree
SRC_EXCLUDE_ALWAYS = {"json.cpp"}          # GRAPHITE2_NTRACING=ON is the repository default


def tree_hash():
    h = hashlib.sha256()
    for d in ("src", "include"):
        for p in sorted((REPO / d).rglob("*")):
            if p.is_file() and p.suffix in (".cpp", ".h", ".c"):
                h.update(str(p.relative_to(REPO)).encode())
                h.update(p.read_bytes())
    return h.hexdigest()[:16]


BASE_FLAGS = ["-std=gnu++14", "-g", "-O1", "-fno-omit-frame-pointer", "-fno-rtti", "-fno-exceptions",
              "-DGRAPHITE2_STATIC", "-DGRAPHITE2_NTRACING", "-D" + GUARD, "-Wno-class-memaccess"]
SAN_FLAGS = ["-fsanitize=address,undefined", "-fsanitize-recover=address", "-fno-sanitize-recover=undefined"]
TSAN_FLAGS = ["-fsanitize=thread"]


def _evict(keep_prefix):
    if not CACHE.exists():
        return
    for p in CACHE.iterdir():
        if p.is_dir() and p.name.startswith("impl-") and not p.name.startswith("impl-" + keep_prefix):
            shutil.rmtree(p, ignore_errors=True)


def build_impl(vm="direct", san="asan", extra_defs=()):
    """Compile every /repo/src/*.cpp (current working tree) into objects. Returns (dir, [objs], log)."""
    th = tree_hash()
    key = "impl-%s-%s-%s%s" % (th, vm, san, ("-" + hashlib.sha1(" ".join(extra_defs).encode()).hexdigest()[:6]) if extra_defs else "")
    out = CACHE / key
    with Lock("impl"):
        _evict(th)
        out.mkdir(parents=True, exist_ok=True)
        srcs = [p for p in sorted((REPO / "src").glob("*.cpp")) if p.name not in SRC_EXCLUDE_ALWAYS]
        other = "call_machine.cpp" if vm == "direct" else "direct_machine.cpp"
        srcs = [p for p in srcs if p.name != other]
        flags = BASE_FLAGS + {"asan": SAN_FLAGS, "tsan": TSAN_FLAGS, "none": []}[san] + list(extra_defs) + \
            ["-I", str(REPO / "include"), "-I", str(REPO / "src")]
        todo = [p for p in srcs if not (out / (p.stem + ".o")).exists()]
        logs = []

        def cc(p):
            r = sh(["g++"] + flags + ["-c", str(p), "-o", str(out / (p.stem + ".o.tmp"))])
            if r.returncode == 0:
                os.replace(out / (p.stem + ".o.tmp"), out / (p.stem + ".o"))
            return p.name, r.returncode, r.stdout

        with cf.ThreadPoolExecutor(NCPU) as ex:
            for name, rc, log in ex.map(cc, todo):
                if rc != 0:
                    logs.append("%s:\n%s" % (name, log))
        if logs:
            raise BuildError("compiling /repo/src failed:\n" + "\n".join(logs)[-4000:])
        return out, [out / (p.stem + ".o") for p in srcs], flags


class BuildError(Exception):
    pass


def build_harness(name, vm="direct", san="asan", extra_defs=(), extra_src=(), libs=()):
    out, objs, flags = build_impl(vm, san, extra_defs)
    src = ROOT / "harness" / (name + ".cpp")
    deps = [src, ROOT / "harness" / "common.h", ROOT / "harness" / "cbface.h"] + [ROOT / "harness" / s for s in extra_src]
    hh = hashlib.sha1(b"".join(p.read_bytes() for p in deps if p.exists())).hexdigest()[:10]
    exe = out / ("%s-%s" % (name, hh))
    with Lock("harness-" + name):
        if not exe.exists():
            r = sh(["g++"] + flags + ["-I", str(ROOT / "harness"), str(src)] + [str(ROOT / "harness" / s) for s in extra_src]
                   + [str(o) for o in objs] + ["-o", str(exe) + ".tmp", "-lpthread"] + list(libs))
            if r.returncode != 0:
                raise BuildError("harness %s failed to build:\n%s" % (name, r.stdout[-4000:]))
            os.replace(str(exe) + ".tmp", exe)
    return exe


SAN_ENV = {"ASAN_OPTIONS": "halt_on_error=0:detect_leaks=0:allocator_may_return_null=1:detect_stack_use_after_return=0:print_summary=0:max_malloc_fill_size=0",
           "UBSAN_OPTIONS": "print_stacktrace=0:halt_on_error=1", "LSAN_OPTIONS": "exitcode=0"}

# checks that ask the harness for a leak verdict (op L: __lsan_do_recoverable_leak_check) switch LeakSanitizer on
LEAK_ENV = {"ASAN_OPTIONS": SAN_ENV["ASAN_OPTIONS"].replace("detect_leaks=0", "detect_leaks=1")}


LINE_TIMEOUT = 30      # seconds without an output line before the process counts as hung on the current input line


def _run_chunk(args):
    """feeds the lines to one process; a crash or a hang (no output line for `line_timeout` seconds) ends that process,
    is recorded as a CRASH line for the input line it was working on, and the rest goes to a fresh process"""
    import select
    exe_cmd, lines, env, timeout, line_timeout = args
    line_timeout = line_timeout or (min(timeout, LINE_TIMEOUT) if timeout else LINE_TIMEOUT)
    outs = []
    i = 0
    crashes = 0
    while i < len(lines):
        with tempfile.TemporaryFile() as inf, tempfile.TemporaryFile() as errf:
            inf.write(("\n".join(lines[i:]) + "\n").encode())
            inf.seek(0)
            p = subprocess.Popen(exe_cmd, stdin=inf, stdout=subprocess.PIPE, stderr=errf, env=env)
            fd = p.stdout.fileno()
            buf = b""
            got = []
            rc = None
            need = len(lines) - i
            while len(got) < need:
                rl, _, _ = select.select([fd], [], [], line_timeout)
                if not rl:
                    rc = "timeout"
                    p.kill()
                    break
                chunk = os.read(fd, 1 << 16)
                if not chunk:
                    break
                buf += chunk
                while b"\n" in buf:
                    ln, buf = buf.split(b"\n", 1)
                    got.append(ln.decode(errors="replace"))
            try:
                p.stdout.close()
            except Exception:
                pass
            try:
                r = p.wait(timeout=10)
            except subprocess.TimeoutExpired:
                p.kill()
                r = p.wait()
            if rc is None:
                rc = r
            if len(got) >= need:
                outs.extend(got[:need])
                break
            # the process died (or hung) while working on line i+len(got)
            errf.seek(0)
            tail = errf.read()[-1500:].decode(errors="replace")
            m = re.search(r"(runtime error: [^\n]*|ERROR: AddressSanitizer: [^\n]*|SUMMARY: [^\n]*)", tail)
            outs.extend(got)
            what = "no output for %ds (hang)" % line_timeout if rc == "timeout" else (m.group(1) if m else tail.strip().split("\n")[-1] if tail.strip() else "")
            outs.append("CRASH rc=%s %s" % (rc, what[:200]))
            i += len(got) + 1
            crashes += 1
            if crashes > 40:
                outs.extend(["CRASH skipped-after-40-crashes"] * (len(lines) - i))
                break
    return outs


def run_lines(exe_cmd, lines, env=None, jobs=None, timeout=600, per_chunk=200, line_timeout=None):
    """One self-contained input line -> one output line; crash-resilient; parallel over chunks."""
    if not lines:
        return []
    e = dict(os.environ)
    e.update(SAN_ENV)
    if env:
        e.update(env)
    exe_cmd = [str(x) for x in exe_cmd]
    jobs = jobs or NCPU
    n = max(1, min(jobs, len(lines) // per_chunk + 1))
    size = (len(lines) + n - 1) // n
    chunks = [lines[k:k + size] for k in range(0, len(lines), size)]
    with cf.ThreadPoolExecutor(n) as ex:
        res = list(ex.map(_run_chunk, [(exe_cmd, c, e, timeout, line_timeout) for c in chunks]))
    return [o for r in res for o in r]


# ----------------------------------------------------------------------------------------------
# the Lean side
def lake(args, timeout=3600):
    with Lock("lake"):
        return sh(["lake"] + args, cwd=LEAN, timeout=timeout)


def lake_build(targets):
    t = time.time()
    r = lake(["build"] + targets)
    return r.returncode == 0, r.stdout, time.time() - t


def driver_path():
    return LEAN / ".lake" / "build" / "bin" / "grdriver"


def lean_files():
    return [p for p in sorted((LEAN / "GrVerif").rglob("*.lean"))] + sorted((LEAN / "Driver").rglob("*.lean")) + [LEAN / "GrVerif.lean"]


def strip_comments(src):
    # nested block comments and line comments
    out = []
    i = 0
    depth = 0
    n = len(src)
    while i < n:
        if src.startswith("/-", i):
            depth += 1
            i += 2
        elif depth and src.startswith("-/", i):
            depth -= 1
            i += 2
        elif depth:
            if src[i] == "\n":
                out.append("\n")
            i += 1
        elif src.startswith("--", i):
            while i < n and src[i] != "\n":
                i += 1
        elif src[i] == '"':
            j = i + 1
            while j < n and src[j] != '"':
                j += 2 if src[j] == "\\" else 1
            out.append('""')
            i = j + 1
        else:
            out.append(src[i])
            i += 1
    return "".join(out)


def grep_forbidden():
    hits = []
    for p in lean_files():
        code = strip_comments(p.read_text())
        for ln, line in enumerate(code.split("\n"), 1):
            if FORBIDDEN.search(line):
                hits.append("%s:%d: %s" % (p.relative_to(LEAN), ln, line.strip()[:120]))
    return hits


def audit_axioms(prop):
    """Run `#print axioms` on every property theorem named in Audit/Axioms<prop>.lean."""
    f = LEAN / "Audit" / ("Axioms%s.lean" % prop)
    r = lake(["env", "lean", str(f)])
    thms = {}
    txt = r.stdout
    for m in re.finditer(r"'([^']+)' depends on axioms: \[([^\]]*)\]", txt, re.S):
        thms[m.group(1)] = [a.strip() for a in m.group(2).replace("\n", " ").split(",") if a.strip()]
    for m in re.finditer(r"'([^']+)' does not depend on any axioms", txt):
        thms[m.group(1)] = []
    wanted = re.findall(r"^#print axioms\s+(\S+)", f.read_text(), re.M)
    # `#print axioms` reports fully qualified names
    for full in list(thms):
        for w in wanted:
            if full == w or full.endswith("." + w):
                thms[w] = thms[full]
    bad = {}
    for w in wanted:
        if w not in thms:
            bad[w] = "missing (not built / unknown constant)"
        else:
            extra = [a for a in thms[w] if a not in ALLOWED_AXIOMS]
            if extra:
                bad[w] = "axioms outside the allowed set: " + ", ".join(extra)
    return wanted, thms, bad, (txt if (r.returncode != 0 or bad) else "")


def leanchecker(module):
    r = lake(["env", "leanchecker", module], timeout=1800)
    return r.returncode == 0, r.stdout[-2000:]


# ----------------------------------------------------------------------------------------------
def seed():
    try:
        return int(os.environ.get("VERIF_SEED", "1"))
    except ValueError:
        return 1


def rng(tag=""):
    return random.Random("%d/%s" % (seed(), tag))


def hexs(bs):
    return "".join("%02x" % b for b in bs) if bs else "-"


def known_findings():
    p = ROOT / "known_findings.json"
    if not p.exists():
        return {"open": [], "fixed": []}
    return json.loads(p.read_text())


def write_json(path, obj):
    path.parent.mkdir(parents=True, exist_ok=True)
    tmp = str(path) + ".tmp"
    with open(tmp, "w") as f:
        json.dump(obj, f, indent=1, sort_keys=False)
        f.write("\n")
    os.replace(tmp, path)


# ----------------------------------------------------------------------------------------------
class Result:
    """Accumulates the outcome of correspondence runs for one check."""

    def __init__(self):
        self.evaluations = 0
        self.distinct = set()
        self.failures = []
        self.disagreements = []
        self.dist = {}
        self.samples = []
        self.faults = 0
        self.crashes = 0
        self.harness = []
        self.rules = []
        self.extra = {}

    def count(self, key, n=1):
        self.dist[key] = self.dist.get(key, 0) + n

    def as_dict(self):
        return {"evaluations": self.evaluations, "distinct_nontrivial": len(self.distinct), "failures": self.failures[:200],
                "disagreements": self.disagreements[:200], "n_disagreements": len(self.disagreements), "distribution": self.dist,
                "samples": self.samples, "sanitizer_faults": self.faults, "impl_crashes": self.crashes,
                "harness": ", ".join(self.harness), "rule": " | ".join(self.rules), "extra": self.extra}


HARNESS_LIBS = {"h_lz4": ["-llz4"]}


def correspond(ctx, res, harness, mode, lines, holds, classify=None, trivial=None, vm="direct", exe_args=(), env=None, sample=3, rule="", per_chunk=200, libs=(), line_timeout=None, same=None):
    """Run `lines` through the real code (harness) and the Lean model (grdriver <mode>), diff, and evaluate the
    property predicate `holds(line, impl_out) -> (True|False|None, why)` on the implementation's own output.
    `same(impl_out, model_out)` replaces plain equality where the model covers only a part of what the harness reports."""
    exe = build_harness(harness, vm=vm, libs=HARNESS_LIBS.get(harness, ()))
    impl = run_lines([exe] + list(exe_args), lines, env=env, per_chunk=per_chunk, line_timeout=line_timeout)
    model = run_lines([driver_path(), mode], lines, per_chunk=per_chunk, line_timeout=line_timeout) if ctx.model_ok else [None] * len(lines)
    tag = "%s/%s" % (harness, mode)
    if tag not in res.harness:
        res.harness.append(tag)
    if rule:
        res.rules.append(rule)
    r = rng("sample" + tag)
    picks = set(r.sample(range(len(lines)), min(sample, len(lines)))) if lines else set()
    for idx, (l, i, m) in enumerate(zip(lines, impl, model)):
        res.evaluations += 1
        if not (trivial and trivial(l)):
            res.distinct.add(l)
        if classify:
            res.count(tag + ":" + classify(l, i))
        if i.startswith("CRASH"):
            res.crashes += 1
        if i == "fault" or i.startswith("fault"):
            res.faults += 1
        ok, why = holds(l, i)
        if ok is False:
            res.failures.append({"harness": harness, "mode": mode, "vm": vm, "line": l, "impl": i, "model": m, "why": why, "exe_args": [str(x) for x in exe_args]})
        if m is not None and not (same(i, m) if same else i == m):
            res.disagreements.append({"harness": harness, "mode": mode, "vm": vm, "line": l, "impl": i, "model": m, "explained_by_failure": ok is False, "exe_args": [str(x) for x in exe_args]})
        if idx in picks:
            res.samples.append({"in": l[:300], "impl": i[:300], "model": (m or "")[:300]})
    return impl, model


def replay_lines(ctx, obj, holds_by_mode, same=None):
    """Generic replay of a failing-input / correspondence replay object."""
    items = [obj] if "line" in obj else obj.get("first", [])
    still = False
    for it in items:
        exe = build_harness(it["harness"], vm=it.get("vm", "direct"), libs=HARNESS_LIBS.get(it["harness"], ()))
        i = run_lines([exe] + it.get("exe_args", []), [it["line"]])[0]
        m = run_lines([driver_path(), it["mode"]], [it["line"]])[0] if driver_path().exists() else None
        ok, why = holds_by_mode[it["mode"]](it["line"], i)
        print("input : %s\nimpl  : %s\nmodel : %s\nproperty predicate on impl output: %s %s" % (it["line"][:500], i[:500], (m or "")[:500], ok, why or ""))
        if ok is False or (m is not None and not (same(i, m) if same else m == i)):
            still = True
    return still

"""Synthesised Feat / Sill tables and feature-value histories, with an abstract reference (a map id -> value)."""
import struct


def feat_table(version, feats):
    """feats: list of (id, flags, nameid, [(value:int16, label)])"""
    n = len(feats)
    hdr = struct.pack(">IHHI", version, n, 0, 0)
    v2 = version >= 0x00020000
    off = 12 + 16 * n          # the loader's own bound uses 16 bytes per record whatever the version
    recs = b""
    sets = b""
    for fid, flags, nid, ss in feats:
        if v2:
            recs += struct.pack(">IHHIHH", fid, len(ss), 0, off + len(sets), flags, nid)
        else:
            recs += struct.pack(">HHIHH", fid & 0xffff, len(ss), off + len(sets), flags, nid)
        for v, l in ss:
            sets += struct.pack(">hH", v, l)
    if not v2:
        recs += b"\0" * (4 * n)        # padding so that settings start where the offsets say
    return hdr + recs + sets


def sill_table(langs):
    """langs: list of (langid, [(featid, value)])"""
    n = len(langs)
    hdr = struct.pack(">IHHHH", 0x00010000, n, 0, 0, 0)
    off = 12 + 8 * n
    recs = b""
    sets = b""
    for lid, ss in langs:
        recs += struct.pack(">IHH", lid, len(ss), off + len(sets))
        for fid, v in ss:
            sets += struct.pack(">IHH", fid, v, 0)
    return hdr + recs + sets


def zeropad(t):
    b = [(t >> 24) & 255, (t >> 16) & 255, (t >> 8) & 255, t & 255]
    i = 3
    while i >= 0 and b[i] == 0x20:
        b[i] = 0
        i -= 1
    return (b[0] << 24) | (b[1] << 16) | (b[2] << 8) | b[3]


class Ref:
    """Abstract reference: a feature value is a map id -> value (32 bit), nothing else."""

    def __init__(self, version, feats, langs):
        self.ids = [(f[0] & 0xffff) if version < 0x00020000 else f[0] for f in feats]
        self.max = {}
        self.defaults = {}
        for fid, (_, flags, nid, ss) in zip(self.ids, feats):
            if fid in self.max:
                continue               # duplicates: first wins in this reference; generators avoid them
            if ss:
                self.max[fid] = max(v & 0xffff for v, _ in ss)
                self.defaults[fid] = ss[0][0] & 0xffff
            else:
                self.max[fid] = 0xffffffff
                self.defaults[fid] = 0
        self.hidden = sum(1 for f in feats if f[1] & 0x0800)
        self.langs = []
        for lid, ss in langs:
            d = dict(self.defaults)
            for fid, v in ss:
                if fid in d and v <= self.max[fid]:
                    d[fid] = v
            if 1 in d and lid <= self.max[1]:
                d[1] = lid
            self.langs.append((lid, d))
        self.fv = [None] * 8

    def op(self, op):
        c, body = op[0], op[1:]
        if c == "L":
            k, lang = body.split("=")
            lang = zeropad(int(lang, 16))
            d = self.defaults
            if lang:
                for lid, ld in self.langs:
                    if lid == lang:
                        d = ld
                        break
            self.fv[int(k)] = dict(d)
            return "ok"
        if c == "C":
            k, k2 = body.split("=")
            if self.fv[int(k2)] is None:
                return "nofv"
            self.fv[int(k)] = dict(self.fv[int(k2)])
            return "ok"
        if c == "S":
            lhs, v = body.split("=")
            k, fid = lhs.split(".")
            fid = zeropad(int(fid, 16))
            v = int(v) & 0xffff
            if fid not in self.max:
                return "nofeat"
            if self.fv[int(k)] is None:
                return "nofv"
            if v > self.max[fid]:
                return "0"
            self.fv[int(k)][fid] = v
            return "1"
        if c == "G":
            k, fid = body.split(".")
            fid = zeropad(int(fid, 16))
            if fid not in self.max:
                return "nofeat"
            if self.fv[int(k)] is None:
                return "nofv"
            return str(self.fv[int(k)][fid] & 0xffff)
        if c == "D":
            if self.fv[int(body)] is None:
                return "nofv"
            return ",".join(str(self.fv[int(body)][fid] & 0xffff) for fid in self.ids)
        if c == "N":
            return "%d/%d/%s" % (len(self.ids) - self.hidden, len(self.langs), ",".join("%08x" % l for l, _ in self.langs))
        return "bad"

#!/usr/bin/env python3
"""Runs the registered checks against every kept breaking change under seeded/<id>/ (apply, check, undo) and records
which checks report a violation.  Usage: python3 tools/seeded.py [id ...] [--tier quick]"""
import json
import subprocess
import sys
from pathlib import Path
ROOT = Path(__file__).resolve().parent.parent
REPO = Path("/repo")


def sh(cmd, **kw):
    return subprocess.run(cmd, shell=True, capture_output=True, text=True, **kw)


def main():
    args = [a for a in sys.argv[1:] if not a.startswith("--")]
    tier = "quick"
    if "--tier" in sys.argv:
        tier = sys.argv[sys.argv.index("--tier") + 1]
        args = [a for a in args if a != tier]
    dirs = sorted(d for d in (ROOT / "seeded").iterdir() if d.is_dir() and (not args or d.name in args))
    results = {}
    for d in dirs:
        meta = json.loads((d / "meta.json").read_text()) if (d / "meta.json").exists() else {}
        prop = d.name.split("-")[0]
        props = meta.get("check_with", [prop])
        if sh("git -C /repo status --porcelain -- src include").stdout.strip():
            print("refusing: /repo has uncommitted changes under src/ or include/")
            return 2
        r = sh("git -C /repo apply %s" % (d / "patch.diff"))
        if r.returncode != 0:
            print("%s: patch does not apply: %s" % (d.name, r.stderr[:300]))
            results[d.name] = {"applies": False}
            continue
        try:
            res = {}
            for p in props:
                c = sh("python3 tools/check.py %s --tier %s" % (p, tier), cwd=ROOT)
                viol = [l for l in c.stdout.splitlines() if l.startswith("VIOLATION")]
                res[p] = {"exit": c.returncode, "violations": viol[:3], "summary": (c.stdout.strip().splitlines() or [""])[-1][:200]}
                print("%s / %s: exit %d %s" % (d.name, p, c.returncode, viol[0] if viol else ""))
            results[d.name] = {"applies": True, "checks": res, "caught": any(v["exit"] == 1 and v["violations"] for v in res.values())}
        finally:
            sh("git -C /repo checkout -- .")
    out = ROOT / "seeded" / "RESULTS.json"
    old = json.loads(out.read_text()) if out.exists() else {}
    old.update(results)
    out.write_text(json.dumps(old, indent=1) + "\n")
    missed = [k for k, v in results.items() if not v.get("caught")]
    print("caught %d / %d; missed: %s" % (len(results) - len(missed), len(results), missed))
    return 0


if __name__ == "__main__":
    sys.exit(main())

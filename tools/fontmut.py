"""Byte-level mutation of sfnt fonts, table by table (used by the loader / shaping safety checks)."""
import struct


def tables(data):
    n = struct.unpack(">H", data[4:6])[0]
    out = {}
    for i in range(n):
        tag, _, off, ln = struct.unpack(">4sIII", data[12 + 16 * i: 28 + 16 * i])
        out[tag.decode("latin1")] = (off, ln, 12 + 16 * i)
    return out


def mutate(r, data, tags=("Silf", "Glat", "Gloc", "Feat", "Sill", "cmap", "hmtx", "maxp", "head", "hhea", "name", "loca", "glyf"), maxbytes=4):
    """returns (mutated bytes, description)"""
    t = tables(data)
    cand = [x for x in tags if x in t and t[x][1] > 0]
    b = bytearray(data)
    tag = r.choice(cand + ["DIR"] if r.random() < 0.1 else cand)
    desc = []
    if tag == "DIR":
        # directory entry: offset or length of a table
        x = r.choice(list(t))
        pos = t[x][2] + r.choice([8, 12]) + r.randrange(4)
        b[pos] = r.randrange(256)
        return bytes(b), "dir:%s@%d=%02x" % (x, pos, b[pos])
    off, ln, _ = t[tag]
    for _ in range(r.randrange(1, maxbytes + 1)):
        # favour the structured front part of the table (headers, offsets, state tables)
        k = int(ln * (r.random() ** 2)) if r.random() < 0.6 else r.randrange(ln)
        k = min(k, ln - 1)
        old = b[off + k]
        how = r.random()
        new = (old + r.choice([1, -1])) & 255 if how < 0.35 else r.choice([0, 0xFF, 0x7F, 0x80, 1]) if how < 0.6 else r.randrange(256)
        b[off + k] = new
        desc.append("%s+%d:%02x>%02x" % (tag, k, old, new))
    if r.random() < 0.05:
        # truncate the file inside the last table
        cut = r.randrange(max(1, len(b) - 64), len(b))
        b = b[:cut]
        desc.append("cut@%d" % cut)
    return bytes(b), ",".join(desc)


def apply(data, desc):
    """re-applies a description returned by `mutate` to the same original bytes"""
    t = tables(data)
    b = bytearray(data)
    for d in desc.split(","):
        if d.startswith("dir:"):
            pos, v = d.split("@")[1].split("=")
            b[int(pos)] = int(v, 16)
            continue
        if d.startswith("cut@"):
            b = b[: int(d[4:])]
            continue
        tag, rest = d.split("+", 1)
        k, ch = rest.split(":")
        b[t[tag][0] + int(k)] = int(ch.split(">")[1], 16)
    return bytes(b)


def drop_table(data, tag):
    """the same font without table `tag` (its directory entry is renamed, so a lookup by tag does not find it)"""
    t = tables(data)
    b = bytearray(data)
    b[t[tag][2]: t[tag][2] + 4] = b"zz" + tag[2:].encode("latin1")
    return bytes(b)


def replace_table(data, tag, new):
    """rebuilds the sfnt with table `tag` replaced by `new` (added when absent)"""
    t = tables(data)
    parts = {k: data[v[0]:v[0] + v[1]] for k, v in t.items()}
    parts[tag] = new
    tags = sorted(parts)
    n = len(tags)
    out = data[:4] + struct.pack(">HHHH", n, 0, 0, 0)
    off = 12 + 16 * n
    dirb, body = b"", b""
    for k in tags:
        d = parts[k]
        dirb += k.encode("latin1") + struct.pack(">III", 0, off + len(body), len(d))
        body += d + b"\0" * ((4 - len(d) % 4) % 4)
    return out + dirb + body

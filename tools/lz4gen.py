"""LZ4 block encoder with random parse choices + an independent strict reference decoder (written from the LZ4 block
format description; cross-checked against liblz4 by the C14 check)."""

MINMATCH = 4
LASTLITERALS = 5
MFLIMIT = 12


def _len_ext(n):
    out = []
    while n >= 255:
        out.append(255)
        n -= 255
    out.append(n)
    return out


def emit_seq(lits, mlen=None, off=None):
    ll = len(lits)
    tok_l = min(ll, 15)
    tok_m = 0 if mlen is None else min(mlen - MINMATCH, 15)
    out = [(tok_l << 4) | tok_m]
    if ll >= 15:
        out += _len_ext(ll - 15)
    out += list(lits)
    if mlen is not None:
        out += [off & 255, off >> 8]
        if mlen - MINMATCH >= 15:
            out += _len_ext(mlen - MINMATCH - 15)
    return out


def encode(data, r, style):
    """A valid LZ4 block for `data` with parse decisions drawn from `r`. style: greedy|random|overlap|literal|longlit"""
    n = len(data)
    out = []
    i = 0
    lit_start = 0
    if style == "literal" or n < MFLIMIT + 1:
        return emit_seq(data)
    # hash of 4-grams -> positions
    pos = {}
    limit = n - MFLIMIT          # a match may not start after this
    while i <= limit:
        key = bytes(data[i:i + 4])
        cands = pos.get(key, [])
        choice = None
        if style == "overlap" and i > 0 and r.random() < 0.5:
            d = r.choice([1, 2, 3, 4, 5, 6, 7, 8, 9])
            if d <= i:
                k = 0
                while i + k < n - LASTLITERALS and data[i + k] == data[i + k - d]:
                    k += 1
                if k >= MINMATCH:
                    choice = (d, k)
        if choice is None and cands and (style == "greedy" or r.random() < 0.6):
            p = cands[-1] if style == "greedy" else r.choice(cands)
            d = i - p
            if 0 < d <= 65535:
                k = 0
                while i + k < n - LASTLITERALS and data[i + k] == data[p + k]:
                    k += 1
                if k >= MINMATCH:
                    if style != "greedy" and r.random() < 0.3:
                        k = r.randrange(MINMATCH, k + 1)
                    choice = (d, k)
        pos.setdefault(key, []).append(i)
        if choice and not (style == "longlit" and i - lit_start < 300 and r.random() < 0.97):
            d, k = choice
            out += emit_seq(data[lit_start:i], k, d)
            i += k
            lit_start = i
        else:
            i += 1
    out += emit_seq(data[lit_start:])
    return out


def ref_decode(src, cap):
    """Strict reference decoder for one LZ4 block: returns the bytes or None.
    End-of-block rules: the last sequence has no match part and its literals end exactly at the end of the input; output may not exceed cap."""
    out = []
    i = 0
    n = len(src)
    if n == 0:
        return None
    while True:
        if i >= n:
            return None
        tok = src[i]
        i += 1
        ll = tok >> 4
        if ll == 15:
            while True:
                if i >= n:
                    return None
                b = src[i]
                i += 1
                ll += b
                if b != 255:
                    break
        if i + ll > n:
            return None
        out += src[i:i + ll]
        i += ll
        if len(out) > cap:
            return None
        if i == n:
            return out
        if i + 2 > n:
            return None
        off = src[i] | (src[i + 1] << 8)
        i += 2
        ml = tok & 15
        if ml == 15:
            while True:
                if i >= n:
                    return None
                b = src[i]
                i += 1
                ml += b
                if b != 255:
                    break
        ml += MINMATCH
        if off == 0 or off > len(out):
            return None
        if len(out) + ml > cap:
            return None
        for _ in range(ml):
            out.append(out[-off])

"""C05 — characters and slots stay validly associated (DESIGN.md §6; partial: slot-side range invariant proved for all action programs)."""
import lib
from props import heapcheck, heapspec, segspec

GEN_MODULES = ["Vm", "Utf"]
ASSUMPTIONS = ["theorems: before/after/original stay in [0,n) for every action program and its garbage collection (Props/C05.lean); char-info count/order/bases are the C12 theorems",
               "associateChars is modelled (Model/Assoc.lean) and tied by correspondence; its coverage and char-info range clauses are decided by the predicate on the implementation's output, not by a theorem",
               "known finding D-9: positioning passes accept ASSOC/PUT_COPY after associateChars has run, so coverage can be lost on such fonts"]
TRUSTED = ["hand-written models GrVerif/Model/{Seg,Action,Assoc}.lean (tied by correspondence)", "tools/fontsynth.py, tools/heapgen.py"]


def pred_heap(f, s, n):
    return heapspec.c05_assoc(f, s, n)


def pred_seg(d, t, meta):
    ok, why = segspec.c05(d, t, list(range(len(t))))
    tag = "c05"
    if not ok and "lies in no slot" in why:
        tag = "coverage"
    return ok, why, tag


def matches_known(k, f):
    sig = k.get("signature", {})
    return f.get("mode") == "e2e" and f.get("tag") == sig.get("tag") and bool(f.get("pos_assoc")) == sig.get("pos_assoc", True)


def assoc_lines(r, n):
    lines = []
    for _ in range(n):
        nc = r.randrange(1, 10)
        m = r.randrange(0, 10)
        sl = []
        for _ in range(m):
            b = r.randrange(0, nc)
            a = r.randrange(0, nc) if r.random() < 0.3 else min(nc - 1, b + r.choice([0, 0, 0, 1, 2]))
            sl.append("%d,%d" % (b, a))
        lines.append("assoc %d %s" % (nc, " ".join(sl)))
    return lines


def assoc_holds(l, i):
    w = l.split()
    nc, m = int(w[1]), len(w) - 2
    if i.startswith(("CRASH", "fault")):
        return False, "out-of-bounds access in associateChars on in-range slot associations"
    sl = [tuple(int(x) for x in t[2:].split(",")) for t in i.split() if t.startswith("s:")]
    ch = [tuple(int(x) for x in t[2:].split(",")) for t in i.split() if t.startswith("c:")]
    if len(sl) != m or len(ch) != nc:
        return False, "dump has %d slots / %d chars, expected %d / %d" % (len(sl), len(ch), m, nc)
    for k, (b, a) in enumerate(sl):
        if not (0 <= b < nc and 0 <= a < nc):
            return False, "slot %d: before/after %d/%d left [0,%d)" % (k, b, a, nc)
    if m:
        # inverted input ranges (before > after) are representable in the component harness but no end-to-end run produced a
        # stream on which they break coverage (DESIGN.md, C05 observations): the coverage clause is evaluated on streams of
        # proper ranges here and on whatever the engine really produces in the end-to-end part
        proper = all(int(t.split(",")[0]) <= int(t.split(",")[1]) for t in w[2:])
        for k, (b, a) in enumerate(ch):
            if not (0 <= b < m and 0 <= a < m):
                return False, "char-info %d: before/after %d/%d are not slot indices in [0,%d)" % (k, b, a, m)
            if proper and not any(sb <= k <= sa for sb, sa in sl):
                return False, "character %d lies in no slot's [before,after] range" % k
    return True, ""


def run(ctx):
    res = lib.Result()
    q = ctx.quick()
    heapcheck.component(ctx, res, pred_heap, 3000 if q else 60000, "predicate: before/after/original of every stream slot in [0,n)")
    r = lib.rng("assoc")
    lib.correspond(ctx, res, "h_heap", "assoc", assoc_lines(r, 3000 if q else 100000), assoc_holds, exe_args=[heapcheck.FONT0], per_chunk=500,
                   rule="assoc: Segment::associateChars on 1..9 characters and 0..9 slots with arbitrary in-range (also inverted and overlapping) before/after")
    heapcheck.end_to_end(ctx, res, pred_seg, 150 if q else 2500, 6 if q else 12, 10 if q else len(heapcheck.WORDS))
    heapcheck.shape_stage(ctx, res, 120 if q else 3000, 6 if q else 12)
    return res.as_dict()


def replay(ctx, obj):
    if obj.get("mode") == "shape":
        return heapcheck.replay_shape(obj)
    if obj.get("mode") == "e2e":
        return heapcheck.replay_e2e(obj, pred_seg)

    def holds(l, i):
        if "status=" not in i:
            return (False, "crash") if i.startswith(("CRASH", "fault")) else (None, "")
        f, s = heapspec.parse(i)
        return pred_heap(f, s, int(l.split()[3]))
    return lib.replay_lines(ctx, obj, {"heap": holds, "assoc": assoc_holds})

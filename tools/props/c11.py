"""C11 — UTF-8/16/32 text is decoded exactly and never read past its end (DESIGN.md §6 C11)."""
import itertools
import lib
from props import utfspec as U

GEN_MODULES = ["Utf"]
ASSUMPTIONS = ["a `fault` on the implementation side is an AddressSanitizer report on an exact-size heap buffer",
               "'truncated multi-unit sequence' = a lead unit followed by fewer trailing units than it announces (lead byte >= 0xC0; UTF-16 lead surrogate)",
               "the cross-encoding clause is decided on the decoded scalar list: shaping consumes only that list (Model.Utf.readText); whole-segment equality across encodings is exercised by the C05 check"]
TRUSTED = ["hand-written model GrVerif/Model/Utf.lean (tied by correspondence; tables and limits regenerated in Gen.Utf)",
           "property predicate: Python's strict utf-8/16/32 codecs as the independent Unicode reference"]
FONT = lib.REPO / "tests" / "fonts" / "Padauk.ttf"

B8 = [0x00, 0x41, 0x7f, 0x80, 0x8f, 0x90, 0x9f, 0xa0, 0xbf, 0xc0, 0xc1, 0xc2, 0xdf, 0xe0, 0xe1, 0xec, 0xed, 0xee, 0xef,
      0xf0, 0xf1, 0xf3, 0xf4, 0xf5, 0xf7, 0xf8, 0xff]
B16 = [0x0000, 0x0041, 0xd7ff, 0xd800, 0xdbff, 0xdc00, 0xdfff, 0xe000, 0xffff]
B32 = [0x0, 0x41, 0xd7ff, 0xd800, 0xdfff, 0xe000, 0xffff, 0x10000, 0x10ffff, 0x110000, 0x7fffffff, 0x80000000, 0xffffffff]
SCALARS = [0x01, 0x41, 0x7f, 0x80, 0x7ff, 0x800, 0xfff, 0x1000, 0xcfff, 0xd000, 0xd7ff, 0xe000, 0xfffd, 0xffff, 0x10000, 0x3ffff, 0x40000,
           0xfffff, 0x100000, 0x10ffff]


def enc_scalar(enc, c):
    if enc == 8:
        return list(chr(c).encode("utf-8"))
    if enc == 16:
        b = chr(c).encode("utf-16-le")
        return [b[i] | (b[i + 1] << 8) for i in range(0, len(b), 2)]
    return [c]


def structured(r, enc, n):
    """mostly-valid text with boundary scalars plus injected junk units"""
    B = {8: B8, 16: B16, 32: B32}[enc]
    out = []
    while len(out) < n:
        x = r.random()
        if x < 0.55:
            out += enc_scalar(enc, r.choice(SCALARS) if r.random() < 0.7 else r.choice([r.randrange(1, 0xd800), r.randrange(0xe000, 0x110000)]))
        elif x < 0.9:
            out.append(r.choice(B))
        else:
            s = enc_scalar(enc, r.choice(SCALARS))
            out += s[:r.randrange(0, len(s) + 1)]        # truncated sequence
    return out[:n] if r.random() < 0.5 else out


def holds(line, out):
    w = line.split()
    if w[0] in ("count", "countz"):
        enc = int(w[1])
        return U.count_holds(enc, U.units_of(enc, w[2]), out, w[0] == "count")
    if w[0] == "text":
        enc = int(w[1])
        return U.text_holds(enc, U.units_of(enc, w[3]), int(w[2]), out)
    return None, ""


def classify(l, o):
    w = l.split()
    enc = int(w[1])
    if w[0] == "text":
        return "text utf%d -> %s" % (enc, o.split()[0] if o and not o.startswith("n=") else "n")
    units = U.units_of(enc, w[2])
    pre = U.before_nul(units)
    _, wf = U.well_formed_chars(enc, pre)
    kind = "wf" if wf else "ill"
    if w[0] == "count" and U.truncated_tail(enc, units):
        kind += "+trunc"
    r = U.parse_count(o)
    return "%s utf%d %s -> %s" % (w[0], enc, kind, "fault" if r is None else ("err" if r[1] is not None else "ok"))


def gen_lines(ctx):
    r = lib.rng("c11")
    q = ctx.quick()
    L = ["count 8 -", "count 16 -", "count 32 -"]
    # exhaustive: all byte strings of length 1 and 2 (length 3 goes through the digest ranges)
    L += ["count 8 %02x" % a for a in range(256)]
    L += ["count 8 %02x%02x" % (a, b) for a in range(256) for b in range(256)]
    # boundary-structured 3..8 byte strings
    for n in (3, 4):
        for t in itertools.product(B8, repeat=n) if (n == 3 or not q) else []:
            L.append("count 8 " + lib.hexs(t))
    for _ in range(60000 if q else 1500000):
        n = r.randrange(3, 9)
        t = structured(r, 8, n) if r.random() < 0.7 else [r.choice(B8) for _ in range(n)]
        L.append("count 8 " + U.hex_of(8, t))
    # each interesting sequence placed at buffer start / middle / end
    for t in itertools.product([0xc2, 0xe0, 0xed, 0xf0, 0xf4, 0x80, 0xbf, 0xa0, 0x90, 0x41], repeat=3):
        for pre, post in (([], []), ([0x41], []), ([], [0x41]), ([0xe1, 0x80, 0x80], [0xc3, 0xa9])):
            L.append("count 8 " + lib.hexs(pre + list(t) + post))
    # UTF-16: all strings of <= 3 (quick) / 4 units over the boundary units, random longer
    for n in (1, 2, 3) if q else (1, 2, 3, 4, 5):
        for t in itertools.product(B16, repeat=n):
            L.append("count 16 " + U.hex_of(16, t))
    for _ in range(20000 if q else 300000):
        L.append("count 16 " + U.hex_of(16, structured(r, 16, r.randrange(1, 9))))
    for n in (1, 2, 3):
        for t in itertools.product(B32, repeat=n):
            L.append("count 32 " + U.hex_of(32, t))
    for _ in range(5000 if q else 100000):
        L.append("count 32 " + U.hex_of(32, structured(r, 32, r.randrange(1, 7))))
    # NUL-terminated branch: everything the caller owns ends at the first NUL
    Z = []
    for enc, B in ((8, B8), (16, B16), (32, B32)):
        nz = [b for b in B if b]
        Z.append("countz %d %s" % (enc, U.hex_of(enc, [0])))
        for n in (1, 2, 3) if enc != 8 or q else (1, 2, 3, 4):
            for t in itertools.product(nz, repeat=n):
                Z.append("countz %d %s" % (enc, U.hex_of(enc, list(t) + [0])))
        for _ in range(20000 if q else 300000):
            t = [u for u in structured(r, enc, r.randrange(1, 9)) if u] + [0]
            if r.random() < 0.2:
                t += [r.choice(B) for _ in range(r.randrange(1, 4))]     # more owned memory after the NUL
            Z.append("countz %d %s" % (enc, U.hex_of(enc, t)))
    return L, Z


def gen_text(ctx, r):
    """gr_make_seg on texts with ill-formed sequences: U+FFFD without derailing what follows (bounded by nChars, NUL inside)."""
    T = []
    q = ctx.quick()
    for enc in (8, 16, 32):
        for _ in range(6000 if q else 100000):
            t = [u for u in structured(r, enc, r.randrange(1, 10)) if u]
            t = t + [0]
            n, _ = U.well_formed_chars(enc, t[:-1])
            nchars = r.choice([len(t) - 1, len(t), len(t) + 7, 1, r.randrange(0, len(t) + 1)])
            T.append("text %d %d %s" % (enc, nchars, U.hex_of(enc, t)))
    return T


def expand_block(length, start, cnt):
    return ["count 8 " + ("%0*x" % (2 * length, i)) for i in range(start, start + cnt)]


def run(ctx):
    res = lib.Result()
    L, Z = gen_lines(ctx)
    lib.correspond(ctx, res, "h_utf", "utf", L, holds, classify=classify, trivial=lambda l: l.endswith(" -"),
                   rule="count: ALL utf-8 strings of <=2 bytes, boundary-byte products (27 classes) of length 3(,4), structured mostly-valid 3..8 byte strings, sequences at buffer start/middle/end; utf-16 all strings <=3 units over 9 boundary units + structured; utf-32 boundary values; exact-size heap buffers under ASan")
    lib.correspond(ctx, res, "h_utf", "utf", Z, holds, classify=classify,
                   rule="countz: NUL-terminated branch, buffer ends at (or shortly after) the first NUL")
    T = gen_text(ctx, lib.rng("c11text"))
    lib.correspond(ctx, res, "h_utf", "utf", T, holds, classify=classify, exe_args=[FONT],
                   rule="text: gr_make_seg char-infos (scalar, base) on texts with ill-formed sequences in the three encodings")
    # exhaustive 3-byte (quick) and 4-byte prefix-sharded (thorough) enumeration through digests
    if ctx.model_ok:
        exe = lib.build_harness("h_utf")
        R = ["range8 3 %d 65536" % (i * 65536) for i in range(256)]
        if not ctx.quick():
            # all 4-byte strings whose first byte is a boundary byte (27 * 2^24)
            R += ["range8 4 %d 1048576" % ((b << 24) + k * 1048576) for b in B8 for k in range(16)]
        a = lib.run_lines([exe], R, per_chunk=8)
        b = lib.run_lines([lib.driver_path(), "utf"], R, per_chunk=8)
        n = 0
        for l, x, y in zip(R, a, b):
            w = l.split()
            n += int(w[3])
            if x != y:
                res.count("digest-mismatch-blocks")
                # bisect: expand the block (or its first 65536 strings that differ) into single lines
                length, start, cnt = int(w[1]), int(w[2]), int(w[3])
                for s0 in range(start, start + cnt, 65536):
                    sub = "range8 %d %d 65536" % (length, s0)
                    if lib.run_lines([exe], [sub]) != lib.run_lines([lib.driver_path(), "utf"], [sub]):
                        lib.correspond(ctx, res, "h_utf", "utf", expand_block(length, s0, 65536), holds, classify=classify)
                        break
        res.evaluations += n
        res.extra["exhaustive_digest"] = {"strings": n, "blocks": len(R), "what": "every utf-8 string of exactly 3 bytes" + ("" if ctx.quick() else " and every 4-byte string starting with one of 27 boundary bytes")}
        res.rules.append("range8: exhaustive enumeration compared through per-block digests, mismatching blocks expanded to single inputs")
    return res.as_dict()


def matches_known(k, f):
    return False


def replay(ctx, obj):
    return lib.replay_lines(ctx, obj, {"utf": holds})

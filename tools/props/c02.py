"""C02 — shaping any accepted font with any text is safe, terminating and bounded (DESIGN.md §6; partial)."""
import json
import os
import re
import shutil
import lib
import fontsynth
import fontmut
from props import heapcheck, segspec

GEN_MODULES = ["Vm", "SlotMap", "KernCap"]
ASSUMPTIONS = ["theorems: slot-map bound of runFSM, insert budget, growth bound of a pass range, structural termination of code, stack discipline via C07 (Props/C02.lean)",
               "memory safety, absence of undefined behaviour and of leaks are decided on the implementation under ASan/UBSan/LSan, not by a theorem",
               "the rule-loop bound maxRuleLoop x (slots + insert budget + 2) is checked on the hook's counter (GRAPHITE2_VERIF), and the counter itself is compared with the model's"]
TRUSTED = ["hand-written models tied by correspondence", "hook commit in /repo (Pass.cpp, Rule.h under GRAPHITE2_VERIF)", "tools/fontsynth.py, tools/fontmut.py"]

SHIPPED = ["grtest1gr.ttf", "small.ttf", "Padauk.ttf", "general.ttf", "MagyarLinLibertineG.ttf"]
TEXTS = ["hello world", "abcabcabc", "a" * 70 + "b", ("a" * 63 + "b") * 3, "", "\U00010000\U0010ffffx", "ကောင်း", "fi ffi office", "x́̂", "aaaaaaaaaaaaaaaaaaaab" * 4]


def safe_verdict(out, nchars):
    """the property predicate on one output line of h_seg (ops S, R, D, d, L)"""
    if out.startswith(("CRASH", "fault")):
        return False, "crash, sanitizer fault or no return (hang): " + out[:160]
    if "exceeded=1" in out:
        return False, "rule loop exceeded maxRuleLoop x (slots + insert budget + 2): " + out[:100]
    if "leak=1" in out:
        return False, "memory still allocated after destroying the segment and the face"
    if "OUTSTANDING" in out:
        return False, "table buffers not released"
    m = re.search(r"\bn=(\d+) walk=(\d+) .*? nc=(\d+)", out)
    if m:
        n, walk, nc = int(m.group(1)), int(m.group(2)), int(m.group(3))
        if nc and n > 64 * nc:
            return False, "%d slots for %d characters (more than 64 per character)" % (n, nc)
    return True, ""


def enc_text(r, cps):
    """-> (enc, hex units) incl. deliberately ill-formed sequences"""
    k = r.random()
    if k < 0.5:
        return 32, "".join("%08x" % c for c in cps) or "-"
    if k < 0.75:
        b = "".join(chr(c) for c in cps if c < 0xD800 or 0xE000 <= c < 0x110000).encode("utf-8")
        b = bytearray(b)
        if b and r.random() < 0.4:
            b[r.randrange(len(b))] = r.choice([0x80, 0xC0, 0xED, 0xF5, 0xFF, 0xE0])
        b = bytes(x for x in b if x != 0)
        return 8, b.hex() or "-"
    u = []
    for c in cps:
        if c >= 0x10000:
            c -= 0x10000
            u += [0xD800 + (c >> 10), 0xDC00 + (c & 0x3FF)]
        elif c:
            u.append(c)
    if u and r.random() < 0.4:
        u[r.randrange(len(u))] = r.choice([0xD800, 0xDFFF, 0xDC00])
    return 16, "".join("%04x" % x for x in u) or "-"


def kern_font(r, tmp, K, advy):
    """small.ttf with a Silf whose collision flag is set, Glat version 3 (octaboxes), glyph b = COLL_FIX|COLL_KERN with margin 10, an optional
    substitution pass c -> (1+K) x c and a positioning pass (one shift loop, kerning) that sets advance.y of every c"""
    import grfont as G
    ACOL = 2
    gattrs = {4: {ACOL: 1 | 16, ACOL + 1: -1000, ACOL + 2: -1000, ACOL + 3: 1000, ACOL + 4: 1000, ACOL + 5: r.choice([10, 10, 0, 100]), ACOL + 6: 1}}
    passes = []
    if K:
        passes.append(G.Pass([G.Rule(1, 0, action=G.code([G.INSERT, G.PUT_GLYPH, 0, 0, G.NEXT] * K, G.NEXT, G.RET_ZERO))], ranges=[(5, 5, 0)]))
    passes.append(G.Pass([G.Rule(1, 0, action=G.code(G.PUSH_SHORT, (advy >> 8) & 255, advy & 255, G.ATTR_SET, G.SL['AdvY'], G.NEXT, G.RET_ZERO))],
                         ranges=[(5, 5, 0)], flags=1 | (1 << 3)))
    s = G.Silf(passes, nglyphs=8, classes=[[5]], ipos=len(passes) - 1, ijust=len(passes), flags=0x20, acoll=ACOL)
    out = tmp / "kern-src.ttf"
    G.make_font(str(lib.REPO / "tests" / "fonts" / "small.ttf"), str(out), s, nattrs=32, gattrs=gattrs, glat_version=3, charmap={0x61: 3, 0x62: 4, 0x63: 5})
    return out.read_bytes()


def run(ctx):
    res = lib.Result()
    q = ctx.quick()
    # (a) pipeline correspondence incl. the loop counters
    heapcheck.shape_stage(ctx, res, 120 if q else 3000, 6 if q else 12, as_failure=False)
    r = lib.rng("c02")
    exe = lib.build_harness("h_seg")
    tmp = lib.CACHE / ("c02-%d" % os.getpid())
    tmp.mkdir(parents=True, exist_ok=True)
    try:
        fonts, lines, meta, mlines = [], [], [], []

        def add_font(data):
            p = tmp / ("f%d.ttf" % len(fonts))
            p.write_bytes(data)
            fonts.append(str(p))
            return len(fonts) - 1
        # (a2) past failures first: fonts (with their texts) on which an earlier tree crashed, kept under /verif/corpus/e2e
        for cf in sorted((lib.ROOT / "corpus" / "e2e").glob("*.json")):
            c = json.loads(cf.read_text())
            fi = add_font(bytes.fromhex(c["font_hex"]))
            for t in c["texts"]:
                for d in c.get("dirs", [0, 1]):
                    lines.append("F0=%d,0,f;S0=0,-1,-1,0,32,%d,-1,%s;R0;D0;d0;X0;L0" % (fi, d, "".join("%08x" % x for x in t) or "-"))
                    meta.append(("corpus:" + cf.stem, None))
        # (b) synthesised fonts, both directions, all direction flags, three encodings, hostile texts
        for _ in range(100 if q else 3000):
            data, desc = fontsynth.gen_font(r)
            fi = add_font(data)
            for _ in range(4):
                cps = fontsynth.gen_text(r, maxlen=r.choice([6, 12, 40, 90]))
                if r.random() < 0.2:
                    cps = cps + [r.choice([0x10000, 0x10FFFF, 0xFFFD, 0x7A, 0x20])]
                enc, hx = enc_text(r, cps)
                lines.append("F0=%d,%d,f;N0=0,%s;S0=0,%d,-1,0,%d,%d,-1,%s;R0;D0;d0;X0;L0" % (fi, r.choice([0, 4, 8, 12, 28]), r.choice(["12", "0.01", "1000"]), r.choice([0, -1]), enc, r.randrange(8), hx))
                meta.append(("synth", None))
        # (c) looping state machines on long runs: the walk reaches the slot-map limit; model compared as well
        for _ in range(40 if q else 1000):
            data, desc = fontsynth.gen_loop_font(r)
            fi = add_font(data)
            for _ in range(3):
                n1 = r.choice([10, 62, 63, 64, 65, 66, 100, 130])
                cps = [0x61] * n1 + [0x62] + [r.choice([0x61, 0x62])] * r.randrange(0, 70)
                hx = "".join("%08x" % c for c in cps)
                lines.append("F0=%d,0,f;S0=0,-1,-1,0,32,0,-1,%s;R0;D0;d0;X0;L0" % (fi, hx))
                meta.append(("loop", "shape %s text=%s" % (desc["model"], hx)))
        # (c2) rules that move the cursor around the high-water mark and return long jumps, on long runs: the loop report
        # must stay within the bound; model compared as well
        corpus = [(3, -120, 1, 125, 500), (2, -100, 2, 130, 400), (4, -60, 1, 70, 300)]     # (match length, jump, maxRuleLoop, a's, c's)
        for k in range(60 if q else 1500):
            fixed = corpus[k] if k < len(corpus) else None
            data, desc = fontsynth.gen_jump_font(r, fixed=True, ln=fixed[0], ret=fixed[1], ml=fixed[2]) if fixed else fontsynth.gen_jump_font(r)
            fi = add_font(data)
            for _ in range(2):
                cps = [0x61] * fixed[3] + [0x62] + [0x63] * fixed[4] if fixed else fontsynth.gen_jump_text(r, long=(not q) and desc["fixed"])      # (inserting rules on 1500-slot runs cost the Lean model minutes per line)
                hx = "".join("%08x" % c for c in cps)
                lines.append("F0=%d,0,f;S0=0,-1,-1,0,32,0,-1,%s;R0;D0;d0;X0;L0" % (fi, hx))
                meta.append(("loop", "shape %s text=%s" % (desc["model"], hx)))
        # (c3) rules nearly as long as the slot map, walked over with inserts and deletes in between: the map register and the cursor at the far
        # end of m_slot_map; model compared as well
        for k in range(40 if q else 1500):
            data, desc = fontsynth.gen_long_font(r)
            fi = add_font(data)
            for _ in range(2):
                cps = fontsynth.gen_long_text(r, desc)
                hx = "".join("%08x" % c for c in cps)
                lines.append("F0=%d,0,f;S0=0,-1,-1,0,32,0,-1,%s;R0;D0;d0;X0;L0" % (fi, hx))
                meta.append(("loop", "shape %s text=%s" % (desc["model"], hx)))
        # (c4) collision kerning against a segment of any height: a positioning pass with kerning whose rule gives every `c` an advance.y of
        # up to 32767 units, optionally after a substitution pass that grows each `c` into up to 63 slots (inside the 64x limit), and a glyph
        # `b` with COLL_FIX|COLL_KERN: KernCollider::initSlot sizes its slice array from the y-extent of the whole segment
        for k in range(6 if q else 60):
            data = kern_font(r, tmp, K=62 if k == 0 else r.choice([0, 0, 5, 62]), advy=32767 if k == 0 else r.choice([32767, 20000, -32768, 1000, 0]))
            fi = add_font(data)
            for n in ([4800, 12] if k == 0 else [r.choice([3, 12, 100, 400])]):
                cps = [0x63] * n + [0x62, 0x63]
                lines.append("F0=%d,0,f;N0=0,20;S0=0,0,-1,0,32,0,-1,%s;R0;L0" % (fi, "".join("%08x" % c for c in cps)))
                meta.append(("kern", None))
        # (d) boundary fonts: an operand one past the end of its table; the loader must refuse, otherwise shaping must still be safe
        for _ in range(40 if q else 1000):
            data, desc = fontsynth.gen_boundary_font(r)
            fi = add_font(data)
            cps = fontsynth.gen_text(r, maxlen=12) + [0x61, 0x62, 0x63, 0x64, 0x65, 0x66, 0x67, 0x68, 0x69]
            lines.append("F0=%d,0,f;S0=0,-1,-1,0,32,0,-1,%s;R0;D0;d0;X0;L0" % (fi, "".join("%08x" % c for c in cps)))
            meta.append(("boundary:" + desc["kind"], None))
        # (e) byte-mutated shipped fonts that the loader still accepts
        base = [(f, (lib.REPO / "tests" / "fonts" / f).read_bytes()) for f in SHIPPED if (lib.REPO / "tests" / "fonts" / f).exists()]
        for _ in range(250 if q else 12000):
            name, data = r.choice(base)
            mut, what = fontmut.mutate(r, data, tags=("Silf", "Glat", "Gloc", "Silf", "Silf", "cmap", "Feat", "hmtx"))
            fi = add_font(mut)
            for t in r.sample(TEXTS, 3):
                cps = [ord(c) for c in t]
                lines.append("F0=%d,%d,f;N0=0,16;S0=0,%d,-1,0,32,%d,-1,%s;R0;D0;d0;X0;L0" % (fi, r.choice([0, 28]), r.choice([0, -1]), r.choice([0, 1]), "".join("%08x" % c for c in cps) or "-"))
                meta.append(("mutated:" + name, what))
        impl = lib.run_lines([exe] + fonts, lines, per_chunk=60, env=lib.LEAK_ENV)
        res.harness.append("h_seg safety histories (implementation only)")
        res.rules.append("safety: synthesised fonts x dir flags 0..7 x 3 encodings (ill-formed UTF, astral, unmapped, long runs); looping state machines on runs of 10..130 glyphs; fonts with an operand one past its table; byte-mutated shipped fonts (%s) x 10 texts; make face/font/seg, loop report, full dump, destroy, leak check" % ", ".join(SHIPPED))
        loopm = [(k, m[1]) for k, m in enumerate(meta) if m[0] == "loop"]
        lm = lib.run_lines([lib.driver_path(), "shape"], [x[1] for x in loopm], per_chunk=60, line_timeout=600) if ctx.model_ok and loopm else []
        lmodel = {}
        for (k, _), o in zip(loopm, lm):
            curok, o = heapcheck.split_curok(o)
            lmodel[k] = o
            if curok is not None:
                res.count("safety-loop:rule-code-passes-cursor-tests=" + curok)
                if curok != "1" and not impl[k].startswith(("noface", "CRASH", "fault")):
                    fi = int(lines[k].split("=")[1].split(",")[0])
                    res.failures.append({"harness": "h_seg", "mode": "shape", "line": meta[k][1], "api_line": lines[k].split(";R0")[0] + ";R0;D0", "impl": impl[k][:300], "model": (o or "")[:300],
                                         "tag": "cursor-hyp", "exe_args": [], "font_hex": open(fonts[fi], "rb").read().hex(),
                                         "why": "the loader accepted a font whose rule code fails the cursor tests: the hypothesis of no_write_through_a_null_cursor is not met"})
        for k, (l, o, m) in enumerate(zip(lines, impl, meta)):
            res.evaluations += 1
            res.distinct.add(l)
            nch = 0
            ok, why = safe_verdict(o, nch)
            kind = m[0].split(":")[0]
            accepted = not o.startswith("noface")
            res.count("safety:%s:%s" % (kind, "rejected" if not accepted else ("noseg" if "noseg" in o else "shaped") if ok else "FAIL"))
            if not ok:
                fi = int(l.split("=")[1].split(",")[0])
                res.failures.append({"harness": "h_seg", "mode": "safety", "line": l, "impl": o[:500], "model": None, "why": why, "what": m[1] if kind == "mutated" else m[0],
                                     "font_hex": open(fonts[fi], "rb").read().hex() if os.path.getsize(fonts[fi]) < 400000 else None, "font_from": m[0]})
                continue
            if kind == "loop" and k in lmodel and accepted:
                iloop, _, ibody = o.partition(" | ") if o.startswith("loop=") else ("", "", o)
                pi = heapcheck.proj_dump(ibody.split(" | ")[0])
                mm = re.match(r"trie=(\S*) (loop=\S+ passes=\S+ exceeded=\S+ )?(noid=\S+ )?(?:gidok=\S+ )?(.*)", lmodel[k])
                mb = mm.group(4).strip() if mm else lmodel[k]
                ml_ = (mm.group(2) or "").strip() if mm else ""
                if pi != mb or (pi != "noseg" and ml_ and ml_ != iloop):
                    res.disagreements.append({"harness": "h_seg", "mode": "safety-loop", "line": m[1], "impl": (iloop + " " + pi)[:400], "model": (ml_ + " " + mb)[:400], "explained_by_failure": False})
        res.samples.append({"in": lines[0][:200], "impl": impl[0][:200], "model": "(no model at this level)"})
    finally:
        shutil.rmtree(tmp, ignore_errors=True)
    cursor_hypothesis(ctx, res, q)
    return res.as_dict()


def cursor_hypothesis(ctx, res, q):
    """the hypothesis of no_write_through_a_null_cursor against the real loader: whatever code Machine::Code's loading constructor
    accepts (the rule code of shipped fonts, intact and with a byte changed, and generated programs that mostly pass its tests, with
    boundary operands, runs of INSERT/DELETE/NEXT, truncations) must pass the cursor tests of the theorem (grdriver loader codecur)"""
    import pathlib
    import passgen
    import sfnt
    from props import c01
    r = lib.rng("c02cur")
    hp = lib.build_harness("h_pass")
    for bf in ("Padauk.ttf", "charis_r_gr.ttf", "general.ttf"):
        bfp = str(lib.REPO / "tests" / "fonts" / bf)
        if not pathlib.Path(bfp).exists():
            continue
        lims = c01.codeinfo(res, hp, bfp)
        if lims is None:
            continue
        li = tuple(int(x) for x in lims)
        real = []
        for sb, pb in passgen.silf_passes(sfnt.read_tables(pathlib.Path(bfp))["Silf"]):
            real += passgen.pass_codes(pb)
        tails = []
        for k in range(1500 if q else 60000):
            if real and k % 3 == 0:
                c, pre, rl, code = r.choice(real)
                pt = r.choice([2, 3])
                if k % 9 == 0:
                    code = bytearray(code)
                    i = r.randrange(len(code))
                    code[i] = r.choice([code[i] ^ (1 << r.randrange(8)), r.randrange(256), 25, 31, 32, 0, 255])
                    code = bytes(code)
            elif k % 3 == 1:
                c, pt, pre, rl, code = passgen.gen_code(r, li)
            else:
                # cursor movers only: INSERT / DELETE / NEXT / COPY_NEXT in random order with an opcode that needs a slot now and then
                rl = r.choice([1, 1, 1, 2, 2, 3, 5])
                pre = r.randrange(0, rl)
                body = []
                for _ in range(r.randrange(1, 10)):
                    body += r.choice([[25], [27], [31], [32], [32, 25], [32, 27], [31, 27], [32, 25]]) if r.random() < 0.8 else r.choice([[59, 0, 0], [1, 5, 35, 0], [33, 1, 0], [30, 0]])
                c, pt, code = False, r.choice([1, 2]), bytes(body + [r.choice([49, 49, 50])])
            tails.append("%d %d %d %d %s %s" % (1 if c else 0, pt, pre, rl, " ".join(lims), code.hex()))
        impl = lib.run_lines([hp, bfp], ["code " + t for t in tails], per_chunk=300)
        model = lib.run_lines([lib.driver_path(), "loader"], ["codecur " + t for t in tails], per_chunk=300) if ctx.model_ok else [None] * len(tails)
        if "h_pass/loader codecur" not in res.harness:
            res.harness.append("h_pass/loader codecur")
            res.rules.append("cursor hypothesis: Machine::Code on the rule code of shipped fonts (intact / one byte changed), generated programs against its limits and random runs of INSERT/DELETE/NEXT/COPY_NEXT with slot-writing opcodes in between; every program the real loader accepts must pass the cursor tests the theorem assumes (codeOK)")
        for t, i, m in zip(tails, impl, model):
            res.evaluations += 1
            res.distinct.add("codecur " + t)
            acc = i.startswith("ok")
            same = None
            if m is not None and " same=" in m:
                m, _, same = m.partition(" same=")
            if same is not None:
                res.count("cursor-hyp:decoders-agree=" + same)
                if same == "0":
                    # (the loader model CodeLoad.load - accepted_action_passes_cursor_tests - and the pipeline model's mkCode - codeOK - read the same bytes)
                    res.disagreements.append({"harness": "h_pass", "mode": "loader", "line": "codecur " + t, "impl": i[:300], "model": m + " same=0", "explained_by_failure": False, "exe_args": [bfp],
                                              "why": "the loader model and the pipeline model decode the same action code into different instruction lists / deletes flags"})
            res.count("cursor-hyp:%s:%s:%s" % ("constraint" if t[0] == "1" else "action", "accepted" if acc else ("fault" if i.startswith(("CRASH", "fault")) else "refused"), m))
            if i.startswith(("CRASH", "fault")):
                res.failures.append({"harness": "h_pass", "mode": "loader", "line": "code " + t, "impl": i[:300], "model": m, "exe_args": [bfp], "why": "crash / out-of-bounds access in the code loader"})
            elif acc and m is not None and m != "cur=1" and (t[0] == "1" or int(t.split()[2]) < int(t.split()[3])):      # (preContext < sort is Pass::readRules' test, not the code loader's)
                res.failures.append({"harness": "h_pass", "mode": "loader", "line": "code " + t, "impl": i[:300], "model": m, "exe_args": [bfp], "tag": "cursor-hyp",
                                     "why": "the loader accepted code that fails the cursor tests (_out_index/_out_length bookkeeping of fetch_opcode: NEXT inside the output, test_context() before a write through the cursor): the hypothesis of no_write_through_a_null_cursor does not hold of a loader-accepted program"})


def replay(ctx, obj):
    if obj.get("harness") == "h_pass" and obj.get("line", "").startswith(("code ", "codecur ")):
        hp = lib.build_harness("h_pass")
        tail = obj["line"].split(" ", 1)[1]
        i = lib.run_lines([hp] + obj.get("exe_args", []), ["code " + tail])[0]
        m = lib.run_lines([lib.driver_path(), "loader"], ["codecur " + tail])[0]
        print("input : %s\nloader: %s\ncursor tests of the theorem (model): %s" % (obj["line"][:400], i[:300], m))
        return i.startswith(("CRASH", "fault")) or (i.startswith("ok") and not m.startswith("cur=1")) or m.endswith("same=0")
    if obj.get("mode") == "shape":
        return heapcheck.replay_shape(obj)
    if obj.get("mode") == "safety" and obj.get("font_hex"):
        exe = lib.build_harness("h_seg")
        tmp = lib.CACHE / ("replay-%d" % os.getpid())
        tmp.mkdir(parents=True, exist_ok=True)
        try:
            p = tmp / "f.ttf"
            p.write_bytes(bytes.fromhex(obj["font_hex"]))
            ops = obj["line"].split(";")
            ops[0] = "F0=0," + ops[0].split(",", 1)[1]
            out = lib.run_lines([exe, str(p)], [";".join(ops)])[0]
            ok, why = safe_verdict(out, 0)
            print("input : %s (%s)\nimpl  : %s\nproperty predicate on impl output: %s %s" % (";".join(ops)[:300], obj.get("what"), out[:600], ok, why))
            return not ok
        finally:
            shutil.rmtree(tmp, ignore_errors=True)
    print(str(obj)[:2000])
    return False

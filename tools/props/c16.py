"""C16 — table callbacks follow strict borrow discipline; nothing is leaked (DESIGN.md §6; partial)."""
import os
import shutil
import struct
import lib
import fontmut
import lz4gen
from props import apihist

GEN_MODULES = ["Lz4"]
ASSUMPTIONS = ["theorem: one Face::Table object - however obtained and however often re-assigned - releases every borrowed pointer exactly once and frees every buffer it allocated exactly once (Props/C16.lean)",
               "which tables a face requests and when, use-after-release and leaks of the whole library are decided on the implementation: fresh heap copy per get_table freed at release_table (ASan), traffic balance, no late get with preloadAll, LeakSanitizer"]
TRUSTED = ["hand-written Model/Borrow.lean tied by correspondence on event traces", "ASan/LSan as the oracle for use-after-release and leaks"]


def borrow_lines(r, n):
    out = []
    for _ in range(n):
        k = r.random()
        th = r.choice([0x00050000, 0x00030000, 0xFFFFFFFF])
        if k < 0.1:
            tb = "absent"
        elif k < 0.2:
            tb = bytes(r.randrange(256) for _ in range(r.randrange(0, 4))).hex() or "-"
        elif k < 0.45:
            tb = (struct.pack(">I", r.choice([0x00020000, 0x00050000, 0x00040000])) + bytes(r.randrange(256) for _ in range(r.randrange(0, 40)))).hex()
        else:
            plain = struct.pack(">I", 0x00050000) + bytes(r.randrange(4) for _ in range(r.randrange(4, 60)))
            blk = bytes(lz4gen.encode(list(plain), r, r.choice(["greedy", "literal", "random", "overlap"])))
            scheme = r.choice([1, 1, 1, 0, 2, 31])
            size = len(plain) if r.random() < 0.8 else r.choice([len(plain) + 1, len(plain) - 1, 3, 0])
            t = struct.pack(">II", 0x00050000, ((scheme << 27) | (size & 0x07FFFFFF))) + blk
            if r.random() < 0.2:
                t = t[: max(8, len(t) - r.randrange(1, 6))]
            tb = t.hex()
        out.append("borrow %08x %s %d" % (th, tb, r.randrange(0, 4)))
    return out


def borrow_holds(l, i):
    if i.startswith(("CRASH", "fault")):
        return False, "crash / sanitizer fault (e.g. use of a released table): " + i[:140]
    if "outstanding=0 bad=0" not in i:
        return False, "a borrowed table was not released exactly once: " + i[-80:]
    return True, ""


def hist_verdict(o, preload_all):
    if o.startswith(("CRASH", "fault")):
        return False, "crash / sanitizer fault (a released table was used, or memory outside a table was accessed): " + o[:160]
    if "OUTSTANDING" in o:
        return False, "tables still outstanding after everything was destroyed"
    if "leak=1" in o:
        return False, "memory still allocated after everything was destroyed"
    for p in o.split(" | "):
        if p.startswith("gets="):
            f = dict(x.split("=") for x in p.split())
            if f.get("bad", "0") != "0":
                return False, "release_table was called with a pointer that was not outstanding: " + p
            if preload_all and f.get("late", "0") != "0":
                return False, "get_table was called after gr_make_face returned although the face was made with gr_face_preloadAll: " + p
    tail = [p for p in o.split(" | ") if p.startswith("gets=")]
    if tail:
        f = dict(x.split("=") for x in tail[-1].split())
        if f["out"] != "0":        # `gets` also counts requests for tables the font does not have
            return False, "get/release not balanced once the face is destroyed: " + tail[-1]
    return True, ""


def run(ctx):
    res = lib.Result()
    q = ctx.quick()
    r = lib.rng("c16")
    lib.correspond(ctx, res, "h_lz4", "borrow", borrow_lines(r, 3000 if q else 100000), borrow_holds, per_chunk=500, libs=lib.HARNESS_LIBS["h_lz4"],
                   rule="borrow: one Face::Table over a lending callback (fresh heap copy per get, freed on release): absent / too short / plain / LZ4-compressed tables (good blocks, wrong sizes, unknown schemes, truncated), 0..3 re-assignments, destruction; the event trace must equal the model's")
    exe = lib.build_harness("h_seg")
    tmp = lib.CACHE / ("c16-%d" % os.getpid())
    tmp.mkdir(parents=True, exist_ok=True)
    try:
        fonts = apihist.font_paths()
        nship = len(fonts)
        base = [(i, open(f, "rb").read()) for i, f in enumerate(fonts) if os.path.getsize(f) < (700000 if q else 10 ** 8)]
        lines, pre = [], []
        origin = {}          # index of a derived font -> (shipped font it was made from, how)
        # fonts whose name table the engine cannot use (format 1, absent, too short) and labels asked for after gr_make_face
        for fi, data in base:
            if len(data) > 700000:
                continue
            nt = fontmut.tables(data).get("name")
            if not nt:
                continue
            for what in ["name+0:00>01", "drop:name", "name+1:00>01,cut-name@4"]:
                if what == "drop:name":
                    mut = fontmut.drop_table(data, "name")
                elif "cut-name" in what:
                    mut = fontmut.replace_table(data, "name", data[nt[0]: nt[0] + 4])
                else:
                    mut = fontmut.apply(data, what)
                p = tmp / ("m%d.ttf" % len(fonts))
                p.write_bytes(mut)
                fonts.append(str(p))
                origin[len(fonts) - 1] = (fonts[fi], what)
                for opts in (6, 7, 0):
                    lines.append(";".join(["F0=%d,%d,C" % (len(fonts) - 1, opts), "N0=0,14", "Q0", "N0=0,14", "X0", "T0", "L0"]))
                    pre.append(opts & 6 == 6)
        for _ in range(350 if q else 15000):
            fi, data = r.choice(base)
            name, fdir, texts = apihist.FONTS[fi]
            use = fi
            if r.random() < 0.45:
                mut, what = fontmut.mutate(r, data, maxbytes=r.choice([1, 2, 5]))
                p = tmp / ("m%d.ttf" % len(fonts))
                p.write_bytes(mut)
                fonts.append(str(p))
                use = len(fonts) - 1
                origin[use] = (fonts[fi], what)
            opts = r.choice([0, 2, 4, 6, 6, 7])
            ops = ["F0=%d,%d,C" % (use, opts), "N0=0,14"]
            body = ["Q0", "V1=0,0", apihist.seg_op(0, 0, r.choice([0, -1]), -1, r.choice(texts), fdir), "D0"] + apihist.noise(r, fi)
            r.shuffle(body)
            # destruction in any order that respects ownership: segments before the face, fonts and feature values whenever
            ends = ["d0", "d1", "d2", "d3", "d4", "d5", "d7", "n0", "X0"]
            if r.random() < 0.5:
                ends = ["X0"]          # the harness destroys what is left: segments first, then fonts, feature values, faces
            ops += body + ends + ["T0", "L0"]
            lines.append(";".join(ops))
            pre.append(opts & 6 == 6)
        impl = lib.run_lines([exe] + fonts, lines, per_chunk=30, env=lib.LEAK_ENV)
        res.harness.append("h_seg lending histories (implementation only)")
        res.rules.append("histories: shipped fonts (incl. the compressed one) and byte-mutated copies through a lending callback face (fresh copy per get_table, freed at release_table) x options {0,2,4,6,7}: face info with labels, feature values, segments, fonts, line breaks, justification in random order, destruction, traffic report, leak check")
        for l, o, pa in zip(lines, impl, pre):
            res.evaluations += 1
            res.distinct.add(l)
            ok, why = hist_verdict(o, pa)
            res.count("history:%s:%s" % ("preloadAll" if pa else "other", "ok" if ok else "FAIL") + (":noface" if o.startswith("noface") else ""))
            if not ok:
                fi = int(l.split("=")[1].split(",")[0])
                res.failures.append({"harness": "h_seg", "mode": "lend", "line": l, "impl": o[-500:], "model": None, "why": why, "preload_all": pa,
                                     "font_hex": open(fonts[fi], "rb").read().hex() if fi >= nship and os.path.getsize(fonts[fi]) < 400000 else None, "font": fonts[fi] if fi < nship else None,
                                     "made_from": origin.get(fi, (None, None))[0], "made_how": origin.get(fi, (None, None))[1]})
        res.samples.append({"in": lines[0][:300], "impl": impl[0][-200:], "model": "(no model at this level)"})
    finally:
        shutil.rmtree(tmp, ignore_errors=True)
    return res.as_dict()


def replay(ctx, obj):
    if obj.get("mode") == "lend":
        exe = lib.build_harness("h_seg")
        tmp = lib.CACHE / ("replay-%d" % os.getpid())
        tmp.mkdir(parents=True, exist_ok=True)
        try:
            if obj.get("font_hex"):
                p = tmp / "f.ttf"
                p.write_bytes(bytes.fromhex(obj["font_hex"]))
                font = str(p)
            elif obj.get("made_from"):
                data = open(obj["made_from"], "rb").read()
                how = obj["made_how"]
                nt = fontmut.tables(data).get("name")
                mut = fontmut.drop_table(data, "name") if how == "drop:name" else fontmut.replace_table(data, "name", data[nt[0]: nt[0] + 4]) if "cut-name" in how else fontmut.apply(data, how)
                p = tmp / "f.ttf"
                p.write_bytes(mut)
                font = str(p)
            else:
                font = obj.get("font")
            if not font:
                print("font too large to travel in the replay file; re-run the check with the same VERIF_SEED")
                return False
            ops = obj["line"].split(";")
            ops[0] = "F0=0," + ops[0].split(",", 1)[1]
            out = lib.run_lines([exe, font], [";".join(ops)], env=lib.LEAK_ENV)[0]
            ok, why = hist_verdict(out, obj.get("preload_all", False))
            print("input : %s\nimpl  : %s\nproperty predicate on impl output: %s %s" % (";".join(ops)[:400], out[-500:], ok, why))
            return not ok
        finally:
            shutil.rmtree(tmp, ignore_errors=True)
    return lib.replay_lines(ctx, obj, {"borrow": borrow_holds})

"""C06 — passes apply rules with the documented matching and precedence semantics (DESIGN.md §6)."""
import lib
import fontsynth
from props import heapcheck

GEN_MODULES = ["Vm"]
ASSUMPTIONS = ["the Lean pass-engine model (Model/Pass.lean + Model/Action.lean) is the reference semantics; theorems relate it to the declarative reading (pattern prefix matching, precedence order, first passing constraint)",
               "scope of the model: fonts and requests of either direction, passes running against the font's direction (reverseSlots), uniform pre-context per pass, design-unit positions; no pass constraint, no collision or bidi pass, no mirroring",
               "fsm_matches_patterns needs TrieOK(tables, patterns): evaluated by the driver for every font it runs (counted in the evidence as tables-encode-patterns)"]
TRUSTED = ["hand-written model GrVerif/Model/{Pass,Action,Seg,Assoc}.lean tied by whole-pipeline correspondence", "tools/fontsynth.py (emits the binary font and the model's description of it from the same data)"]


def run(ctx):
    res = lib.Result()
    q = ctx.quick()
    heapcheck.shape_stage(ctx, res, 250 if q else 6000, 6 if q else 12, as_failure=True)
    # a second stream with many competing rules per pass and long rule loops
    heapcheck.shape_stage(ctx, res, 80 if q else 2000, 6 if q else 12, as_failure=True, gen_kw={"max_rules": 12, "npasses": 1, "ipos": 1, "allow": ("next", "put_glyph", "put_glyph", "insert", "delete")})
    # rules that walk over the high-water mark and return a backward or forward jump: the programs in which what the pass applies, and how
    # often (MaxRuleLoop), depends on the book-keeping of `highpassed` in Pass::adjustSlot / runGraphite
    heapcheck.shape_stage(ctx, res, 80 if q else 600, 6 if q else 8, as_failure=True, fontgen=lambda r: fontsynth.gen_jump_font(r),
                          textgen=lambda r: fontsynth.gen_jump_text(r), refusable=True,
                          label="jump fonts: %d one-rule substitution passes (pattern `b c..c`, action next/insert/delete, return value -120..100, maxRuleLoop 1|2|5) x %d texts `a..a b c..c`")
    return res.as_dict()


def replay(ctx, obj):
    return heapcheck.replay_shape(obj)

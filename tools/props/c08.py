"""C08 — shaping is a pure function of its arguments, history-independent (DESIGN.md §6; partial)."""
import lib
from props import apihist

GEN_MODULES = []
ASSUMPTIONS = ["theorems: the lazily filled glyph cache is history-independent and equals the preloaded one (Props/C08.lean); the pass-engine model is a function of its arguments by construction",
               "everything else is decided on the implementation by API histories: a probe segment before and after arbitrary other calls must dump identically, and the face must answer its queries identically"]
TRUSTED = ["hand-written Model/Borrow.lean: the glyph cache is tied to the code only through the end-to-end dumps; the hinted-advance cache is run against Font::advance itself (values and callback calls)"]


def verdict(out):
    if out.startswith(("CRASH", "fault")):
        return False, "crash / sanitizer fault: " + out[:160]
    parts = out.split(" | ")
    dumps = [p for p in parts if p.startswith("n=") or p == "noseg"]
    infos = [p for p in parts if p.startswith("g=")]
    if len(dumps) < 2:
        return None, ""
    if dumps[0] != dumps[-1]:
        k = next((i for i in range(min(len(dumps[0]), len(dumps[-1]))) if dumps[0][i] != dumps[-1][i]), 0)
        return False, "the probe segment differs after the intervening calls (first difference at column %d): ...%s vs ...%s" % (k, dumps[0][max(0, k - 40):k + 60], dumps[-1][max(0, k - 40):k + 60])
    if len(infos) >= 2 and infos[0] != infos[-1]:
        return False, "the face reports something else about itself after shaping"
    return True, ""


def num_glyphs(path):
    """maxp.numGlyphs of an sfnt file"""
    import struct
    b = open(path, "rb").read()
    n = struct.unpack(">H", b[4:6])[0]
    for i in range(n):
        tag, _, off, _ = struct.unpack(">4sIII", b[12 + 16 * i:28 + 16 * i])
        if tag == b"maxp":
            return struct.unpack(">H", b[off + 4:off + 6])[0]
    return 0


def adv_histories(ctx, res, r, count):
    """Font::advance against Model/Borrow.lean's `advance`: pure request histories (values and the exact callback calls
    must agree) and histories with segments, slot queries and justification in between (values must agree)"""
    exe = lib.build_harness("h_seg")
    fonts = apihist.font_paths()
    ng = [num_glyphs(f) for f in fonts]
    impl_lines, model_lines, pure = [], [], []
    for _ in range(count):
        fi = r.randrange(len(fonts))
        kind = r.randrange(4)
        name, fdir, texts = apihist.FONTS[fi]
        hot = [r.randrange(ng[fi]) for _ in range(r.randrange(1, 5))]
        groups = [[r.choice(hot) if r.random() < 0.6 else r.randrange(ng[fi]) for _ in range(r.randrange(1, 9))] for _ in range(r.randrange(1, 4))]
        p = r.random() < 0.5
        ops = ["F0=%d,%d,%s" % (fi, r.choice([0, 2]), r.choice(["f", "c"])), "H0=0,%s,%d" % (r.choice(["12", "16", "2048"]), kind)]
        for gi, g in enumerate(groups):
            if not p and gi:
                ops += [apihist.seg_op(1, 0, 0, -1, r.choice(texts), r.choice([fdir, 1 - fdir])), "D1"] + (["J1=0,0,%s,0,-1,-1" % r.choice(["100", "3000"])] if r.random() < 0.4 else []) + ["d1"]
            ops.append("A0=" + ",".join(map(str, g)))
        impl_lines.append(";".join(ops))
        model_lines.append("adv %d %d %s" % (kind, ng[fi], ",".join(str(x) for g in groups for x in g)))
        pure.append(p)
    impl = lib.run_lines([exe] + fonts, impl_lines, per_chunk=100)
    model = lib.run_lines([lib.driver_path(), "adv"], model_lines, per_chunk=500) if ctx.model_ok else [None] * len(impl_lines)
    res.harness.append("h_seg/adv")
    res.rules.append("hinted-advance cache: %d shipped fonts x 4 callbacks (fractional, negative, sentinel-valued, large) x request histories of 1..24 glyph ids with repeats; half of them with segments, dumps and justification on the same font between the requests" % len(fonts))
    for il, ml, io, mo, p in zip(impl_lines, model_lines, impl, model, pure):
        res.evaluations += 1
        res.distinct.add(il)
        got = " ".join(x[2:] for x in io.split(" | ") if x.startswith("a="))
        vals = [t.rstrip("*") for t in got.split()]
        res.count("adv:" + ("pure" if p else "mixed") + (":crash" if io.startswith(("CRASH", "fault")) else ""))
        # the property on the implementation alone: every answer is the callback's value for that glyph, whatever came before
        gids = [int(x) for x in ml.split()[3].split(",")]
        seen = {}
        bad = None
        if io.startswith(("CRASH", "fault")):
            bad = "crash / sanitizer fault: " + io[:160]
        elif len(vals) != len(gids):
            bad = "missing answers"
        else:
            for g, v in zip(gids, vals):
                if seen.setdefault(g, v) != v:
                    bad = "Font::advance(%d) answered %s earlier and %s now" % (g, seen[g], v)
                    break
        if bad:
            res.failures.append({"harness": "h_seg", "mode": "adv", "line": il, "model_line": ml, "impl": io[:600], "model": mo, "why": bad, "exe_args": fonts})
        if mo is not None:
            a, b = (got, mo) if p else (" ".join(vals), " ".join(t.rstrip("*") for t in mo.split()))
            if a != b:
                res.disagreements.append({"harness": "h_seg", "mode": "adv", "line": il, "model_line": ml, "impl": got, "model": mo, "explained_by_failure": bool(bad), "exe_args": fonts})
    res.samples.append({"in": impl_lines[0][:300], "impl": impl[0][:200], "model": (model[0] or "")[:200]})


def run(ctx):
    res = lib.Result()
    q = ctx.quick()
    r = lib.rng("c08")
    exe = lib.build_harness("h_seg")
    fonts = apihist.font_paths()
    lines = []
    for _ in range(500 if q else 20000):
        # (the two collision fonts are slow: the quick tier gives them one history in twelve)
        fi = r.randrange(len(apihist.FONTS) - (2 if q else 0)) if not q or r.random() > 0.08 else len(apihist.FONTS) - 1 - r.randrange(2)
        name, fdir, texts = apihist.FONTS[fi]
        opts = r.choice([0, 0, 2, 4, 6])
        src = r.choice(["f", "c"])
        probe = apihist.seg_op(0, 0, r.choice([0, -1]), -1, r.choice(texts), r.choice([fdir, fdir, 1 - fdir, 2, 5]))
        # a third of the histories use a hinted font (Font::m_advances, the application's advance callback is a pure function of the glyph)
        mkfont = "H0=0,%s,%d" % (r.choice(["12", "16"]), r.randrange(4)) if r.random() < 0.34 else "N0=0,%s" % r.choice(["12", "20"])
        ops = ["F0=%d,%d,%s" % (fi, opts, src), mkfont, "V1=0,0", "Q0", probe, "D0", "d0"] + apihist.noise(r, fi) + ["Q0", probe, "D0"]
        lines.append(";".join(ops))
    impl = lib.run_lines([exe] + fonts, lines, per_chunk=40)
    res.harness.append("h_seg histories (implementation only)")
    res.rules.append("histories: %d shipped fonts x options {0,2,4,6} x {file, callbacks}: face info, probe segment, 0..6 intervening calls (other segments in all directions, dumps, line breaks, justification, feature-value creation and setting, label/feature queries, second font, destructions); a third of them on a hinted font whose advance callback returns fractional, negative, sentinel-valued or large advances, face info, the same probe again" % len(fonts))
    for l, o in zip(lines, impl):
        res.evaluations += 1
        res.distinct.add(l)
        ok, why = verdict(o)
        res.count("history:" + ("skip" if ok is None else "same" if ok else "DIFFERENT"))
        if ok is False:
            res.failures.append({"harness": "h_seg", "mode": "history", "line": l, "impl": o[:600], "model": None, "why": why, "exe_args": fonts})
    res.samples.append({"in": lines[0][:300], "impl": impl[0][:200], "model": "(no model at this level)"})
    adv_histories(ctx, res, r, 600 if q else 30000)
    return res.as_dict()


def replay(ctx, obj):
    exe = lib.build_harness("h_seg")
    items = [obj] if "line" in obj else obj.get("first", [])
    if items and items[0].get("mode") == "adv":
        still = False
        for it in items:
            out = lib.run_lines([exe] + it["exe_args"], [it["line"]])[0]
            mo = lib.run_lines([lib.driver_path(), "adv"], [it["model_line"]])[0] if lib.driver_path().exists() else None
            got = " ".join(x[2:] for x in out.split(" | ") if x.startswith("a="))
            vals = [t.rstrip("*") for t in got.split()]
            gids = [int(x) for x in it["model_line"].split()[3].split(",")]
            seen = {}
            incons = any(seen.setdefault(g, v) != v for g, v in zip(gids, vals)) or len(vals) != len(gids)
            print("input : %s\nimpl  : %s\nmodel : %s\nsame glyph, same answer: %s" % (it["line"][:400], got[:400], mo, not incons))
            if incons or (mo is not None and [t.rstrip("*") for t in mo.split()] != vals):
                still = True
        return still
    out = lib.run_lines([exe] + obj["exe_args"], [obj["line"]])[0]
    ok, why = verdict(out)
    print("input : %s\nimpl  : %s\nproperty predicate on impl output: %s %s" % (obj["line"][:400], out[:500], ok, why))
    return ok is False

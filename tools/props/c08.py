"""C08 — shaping is a pure function of its arguments, history-independent (DESIGN.md §6; partial)."""
import lib
from props import apihist

GEN_MODULES = []
ASSUMPTIONS = ["theorems: the lazily filled glyph cache is history-independent and equals the preloaded one (Props/C08.lean); the pass-engine model is a function of its arguments by construction",
               "everything else is decided on the implementation by API histories: a probe segment before and after arbitrary other calls must dump identically, and the face must answer its queries identically"]
TRUSTED = ["hand-written Model/Borrow.lean (glyph cache), tied to the code only through the end-to-end dumps"]


def verdict(out):
    if out.startswith(("CRASH", "fault")):
        return False, "crash / sanitizer fault: " + out[:160]
    parts = out.split(" | ")
    dumps = [p for p in parts if p.startswith("n=") or p == "noseg"]
    infos = [p for p in parts if p.startswith("g=")]
    if len(dumps) < 2:
        return None, ""
    if dumps[0] != dumps[-1]:
        k = next((i for i in range(min(len(dumps[0]), len(dumps[-1]))) if dumps[0][i] != dumps[-1][i]), 0)
        return False, "the probe segment differs after the intervening calls (first difference at column %d): ...%s vs ...%s" % (k, dumps[0][max(0, k - 40):k + 60], dumps[-1][max(0, k - 40):k + 60])
    if len(infos) >= 2 and infos[0] != infos[-1]:
        return False, "the face reports something else about itself after shaping"
    return True, ""


def run(ctx):
    res = lib.Result()
    q = ctx.quick()
    r = lib.rng("c08")
    exe = lib.build_harness("h_seg")
    fonts = apihist.font_paths()
    lines = []
    for _ in range(500 if q else 20000):
        fi = r.randrange(len(apihist.FONTS) - (2 if q else 0))
        name, fdir, texts = apihist.FONTS[fi]
        opts = r.choice([0, 0, 2, 4, 6])
        src = r.choice(["f", "c"])
        probe = apihist.seg_op(0, 0, r.choice([0, -1]), -1, r.choice(texts), r.choice([fdir, fdir, 1 - fdir, 2, 5]))
        ops = ["F0=%d,%d,%s" % (fi, opts, src), "N0=0,%s" % r.choice(["12", "20"]), "V1=0,0", "Q0", probe, "D0", "d0"] + apihist.noise(r, fi) + ["Q0", probe, "D0"]
        lines.append(";".join(ops))
    impl = lib.run_lines([exe] + fonts, lines, per_chunk=40)
    res.harness.append("h_seg histories (implementation only)")
    res.rules.append("histories: %d shipped fonts x options {0,2,4,6} x {file, callbacks}: face info, probe segment, 0..6 intervening calls (other segments in all directions, dumps, line breaks, justification, feature-value creation and setting, label/feature queries, second font, destructions), face info, the same probe again" % len(fonts))
    for l, o in zip(lines, impl):
        res.evaluations += 1
        res.distinct.add(l)
        ok, why = verdict(o)
        res.count("history:" + ("skip" if ok is None else "same" if ok else "DIFFERENT"))
        if ok is False:
            res.failures.append({"harness": "h_seg", "mode": "history", "line": l, "impl": o[:600], "model": None, "why": why, "exe_args": fonts})
    res.samples.append({"in": lines[0][:300], "impl": impl[0][:200], "model": "(no model at this level)"})
    return res.as_dict()


def replay(ctx, obj):
    exe = lib.build_harness("h_seg")
    out = lib.run_lines([exe] + obj["exe_args"], [obj["line"]])[0]
    ok, why = verdict(out)
    print("input : %s\nimpl  : %s\nproperty predicate on impl output: %s %s" % (obj["line"][:400], out[:500], ok, why))
    return ok is False

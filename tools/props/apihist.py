"""Randomised public-API histories for h_seg (shared by C08, C10, C16)."""
import lib

FONTS = [("Padauk.ttf", 0, ["ကောင်း", "မြန်မာ", "ကခဂ abc", "င်္ကျြ"]),
         ("charis_r_gr.ttf", 0, ["hello", "office affinity", "ạ́x̂", "Đ ŋ ɛ"]),
         ("Scheherazadegr.ttf", 1, ["السلام", "عليكم", "بَّب"]),
         ("general.ttf", 0, ["abc", "fi fl", "a b c"]),
         ("Annapurnarc2.ttf", 0, ["नमस्ते", "क्षि", "दुनिया"]),
         ("MagyarLinLibertineG.ttf", 0, ["fi ffi", "office", "Wörld"]),
         ("AwamiNastaliq-Regular.ttf", 1, ["یہ ایک", "جملہ ہے"]),
         ("Awami_compressed_test.ttf", 1, ["یہ ایک", "جملہ"])]


def font_paths():
    return [str(lib.REPO / "tests" / "fonts" / f[0]) for f in FONTS]


def hx(t):
    return "".join("%08x" % ord(c) for c in t if not 0xD800 <= ord(c) < 0xE000) or "-"


def seg_op(k, face, font, fv, text, d):
    return "S%d=%d,%d,%d,0,32,%d,-1,%s" % (k, face, font, fv, d, hx(text))


def noise(r, fi, nfonts=1):
    """a random sequence of other API calls on face 0 / font 0 that must not influence a later probe"""
    name, fdir, texts = FONTS[fi]
    ops = []
    for _ in range(r.randrange(0, 7)):
        k = r.random()
        if k < 0.35:
            s = r.randrange(1, 6)
            ops.append(seg_op(s, 0, r.choice([0, -1]), r.choice([-1, 1]), r.choice(texts + ["xyz", ""]), r.randrange(8)))
            if r.random() < 0.5:
                ops.append("D%d" % s)
            if r.random() < 0.3:
                ops.append("B%d=%d" % (s, r.randrange(1, 4)))
                ops.append("J%d=0,%d,%s,%d,-1,-1" % (s, r.choice([0, -1]), r.choice(["100", "1000", "-1"]), r.randrange(4)))
            if r.random() < 0.5:
                ops.append("d%d" % s)
        elif k < 0.55:
            ops.append("Q0")
        elif k < 0.75:
            ops.append("V1=0,%08x" % r.choice([0, 0x656E6700, 0x76696520, 0x12345678]))
            if r.random() < 0.6:
                ops.append("v1=0,%08x,%d" % (r.choice([0x6B646F74, 0x401, 0x405, 1, 0x63763438]), r.randrange(4)))
        elif k < 0.85:
            ops.append("N1=0,%s" % r.choice(["7", "33.3", "1000"]))
            ops.append(seg_op(6, 0, 1, -1, r.choice(texts), r.randrange(2)))
            ops.append("d6")
            ops.append("n1")
        else:
            ops.append(seg_op(7, 0, 0, -1, r.choice(texts), fdir))
            ops.append("D7")
    return ops

"""C18 — feature values are an isolated, range-checked map with font defaults (DESIGN.md §6 C18)."""
import lib
import featgen

GEN_MODULES = ["Pads"]
ASSUMPTIONS = ["feature ids within one Feat table are distinct (with duplicates the API cannot address the later ones)",
               "labels: decided on NameTable::getName itself (what gr_fref_label / gr_fref_value_label call with the label's name id) over generated name tables; the conversion of the label to UTF-8/32 is C11's",
               "the Sill loader also stores the language id in feature id 1 when that value fits (FeatureMap.cpp 'always feature id 1'); the reference includes this rule"]
TRUSTED = ["hand-written model GrVerif/Model/Feat.lean incl. byte-level Feat/Sill parsers (tied by correspondence); mask_over_val/bit_set_count modelled by their meaning, validated for every 16-bit maximum",
           "property predicate: tools/featgen.py Ref - a plain map id -> value"]
BASE = lib.REPO / "tests" / "fonts" / "general.ttf"


def gen_case(r, big=False):
    version = r.choice([0x00010000, 0x00020000, 0x00020000])
    n = r.choice([1, 2, 3, 5, 8, 13, 21, 40]) if not big else r.choice([120, 130, 200, 257, 300])
    ids = set()
    feats = []
    for i in range(n):
        while True:
            fid = r.choice([1, 2, 3, 0x6c696761, 0x6b6e2020, 0x6b6e0000]) if r.random() < 0.15 else (r.randrange(1, 0xffff) if version < 0x20000 else r.getrandbits(32) | 1)
            if version < 0x20000:
                fid &= 0xffff
            fid = featgen.zeropad(fid)       # an id that is not its own zero-padded form cannot be addressed through the API
            if fid not in ids and fid:
                ids.add(fid)
                break
        k = r.random()
        if big or k < 0.2:
            ss = []
        else:
            m = r.choice([0, 1, 2, 3, 4, 7, 8, 15, 16, 255, 256, 1023, 32767, 32768, 65535, r.randrange(65536)])
            vals = [m] + [r.randrange(0, m + 1) for _ in range(r.randrange(0, 4))]
            r.shuffle(vals)
            ss = [((v - 65536) if v >= 32768 else v, r.randrange(256, 300)) for v in vals]
        feats.append((fid, 0x0800 if r.random() < 0.1 else 0, 256 + i, ss))
    langs = []
    lids = set()
    for _ in range(r.choice([0, 0, 1, 2, 5])):
        lid = r.choice([0x656e2020, 0x656e0000, 0x66726120, r.getrandbits(32) | 0x01000000])
        if featgen.zeropad(lid) in lids or lid == 0:
            continue
        lid = featgen.zeropad(lid)
        lids.add(lid)
        ss = []
        for _ in range(r.randrange(0, 5)):
            f = r.choice(feats)
            fid = f[0]
            ss.append((fid if r.random() < 0.9 else r.getrandbits(32), r.choice([0, 1, r.randrange(65536)])))
        langs.append((lid, ss))
    ref = featgen.Ref(version, feats, langs)
    # history
    ops = ["N", "L0=0"]
    fids = [(f[0] & 0xffff) if version < 0x20000 else f[0] for f in feats]
    for _ in range(r.randrange(5, 50)):
        k = r.random()
        slot = r.randrange(0, 4)
        fid = r.choice(fids) if r.random() < 0.95 else r.getrandbits(32)
        fidtxt = "%x" % fid
        if r.random() < 0.1 and (fid & 0xffff) == 0:      # the space-padded spelling of a zero-padded tag
            fidtxt = "%x" % ((fid & 0xffff0000) | 0x2020)
        if k < 0.45:
            mx = ref.max.get(fid, 0)
            v = r.choice([0, 1, mx & 0xffff, (mx + 1) & 0xffff, 65535, r.randrange(65536)])
            ops.append("S%d.%s=%d" % (slot, fidtxt, v))
        elif k < 0.7:
            ops.append("G%d.%s" % (slot, fidtxt))
        elif k < 0.8:
            ops.append("C%d=%d" % (slot, r.randrange(0, 4)))
        elif k < 0.9:
            lang = r.choice([0] + [l for l, _ in langs] + [0x656e2020, 0x7a7a7a7a])
            if r.random() < 0.3 and lang & 0xff == 0 and lang:
                lang |= 0x20 if (lang & 0xff00) else 0x2020
            ops.append("L%d=%x" % (slot, lang))
        else:
            ops.append("D%d" % slot)
    ops.append("D0")
    ft = featgen.feat_table(version, feats)
    st = featgen.sill_table(langs) if langs or r.random() < 0.5 else None
    line = "feat %s %s %s" % (ft.hex(), st.hex() if st else "-", ",".join(ops))
    return line, (version, feats, langs, ops)


def mutate_tables(r, line):
    w = line.split()
    ft = bytearray(bytes.fromhex(w[1]))
    k = r.randrange(5)
    if k == 0:
        ft = ft[: r.randrange(0, len(ft))]
    elif k == 1 and len(ft) > 6:
        ft[4:6] = bytes([r.choice([0, 0xff, 1]), r.randrange(256)])
    elif k == 2 and len(ft) > 24:
        ft[20:24] = bytes([0xff, 0xff, 0xff, r.randrange(256)])
    elif k == 3 and len(ft) > 16:
        i = r.randrange(12, len(ft)); ft[i] ^= 1 << r.randrange(8)
    else:
        ft[0:4] = bytes([0, r.choice([0, 1, 2, 3]), r.choice([0, 0xff]), 0])
    return "feat %s %s %s" % (bytes(ft).hex() or "-", w[2], "N,L0=0,D0")


def run(ctx):
    res = lib.Result()
    r = lib.rng("c18")
    info = {}
    lines = []
    for _ in range(1500 if ctx.quick() else 30000):
        l, meta = gen_case(r)
        info[l] = meta
        lines.append(l)
    for _ in range(12 if ctx.quick() else 150):       # many setting-less features: word indices beyond a byte
        l, meta = gen_case(r, big=True)
        info[l] = meta
        lines.append(l)

    def holds(line, out):
        if out.startswith("CRASH"):
            return False, "the implementation crashed"
        if out == "fault":
            return False, "out-of-bounds access while reading Feat/Sill or using feature values"
        if line not in info:
            return None, ""
        if out == "noface":
            return None, ""          # refusing a table is always allowed
        version, feats, langs, ops = info[line]
        ref = featgen.Ref(version, feats, langs)
        got = out.split(" ")
        for i, op in enumerate(ops):
            want = ref.op(op)
            if i >= len(got) or got[i] != want:
                return False, "operation %d `%s`: the feature map reference gives %s, the library %s" % (i, op, want, got[i] if i < len(got) else "nothing")
        return True, ""

    def classify(l, o):
        if l not in info:
            return "malformed -> " + ("noface" if o == "noface" else "fault" if o == "fault" else "loaded")
        n = len(info[l][1])
        return "feats=%s langs=%d -> %s" % ("<9" if n < 9 else "<100" if n < 100 else "100+", len(info[l][2]), "noface" if o == "noface" else "fault" if o == "fault" else "ok")
    lib.correspond(ctx, res, "h_feat", "feat", lines, holds, classify=classify, exe_args=[BASE], per_chunk=40,
                   rule="feat: synthesised Feat (v1/v2 layout, 1..40 features, maxima around every power of two, hidden flags, negative int16 settings) and Sill tables (0..5 languages, unknown feature ids, out-of-range values) on a callback face; histories of 5..50 set/get/clone/for_lang/dump operations over 4 feature-value slots incl. space-padded tags; 100..300 setting-less features")
    # every possible 16-bit maximum: width computation (mask_over_val / bit_set_count) tied exhaustively
    wl = []
    step = 1 if not ctx.quick() else 1
    for m in list(range(0, 70)) + [2 ** k + d for k in range(6, 16) for d in (-2, -1, 0, 1)] + ([] if ctx.quick() else list(range(70, 65536, 7))):
        if 0 <= m <= 65535:
            sv = (m - 65536) if m >= 32768 else m
            feats = [(5, 0, 256, [(sv, 1)]), (6, 0, 257, [(1, 1)]), (7, 0, 258, [(sv, 1)])]
            ops = ["L0=0", "S0.5=%d" % m, "S0.6=1", "S0.7=%d" % m, "S0.5=%d" % ((m + 1) & 0xffff), "D0", "S0.5=0", "D0"]
            l = "feat %s - %s" % (featgen.feat_table(0x00020000, feats).hex(), ",".join(ops))
            info[l] = (0x00020000, feats, [], ops)
            wl.append(l)
    lib.correspond(ctx, res, "h_feat", "feat", wl, holds, classify=lambda l, o: "width-sweep -> " + ("ok" if o not in ("noface", "fault") else o), exe_args=[BASE], per_chunk=40,
                   rule="width sweep: three adjacent features whose maximum takes boundary values (all 65536 in the thorough tier)")
    ml = [mutate_tables(r, l) for l in lines[: (600 if ctx.quick() else 10000)]]
    lib.correspond(ctx, res, "h_feat", "feat", ml, holds, classify=classify, exe_args=[BASE], per_chunk=40,
                   rule="malformed Feat tables (truncation, counts, offsets, versions, bit flips): loader verdict and defaults must agree with the model, no out-of-bounds access")
    # labels are the name-table strings: on well-formed name tables (Mac and Windows records in the order the format wants, one to a
    # few records per platform, several languages and label ids) NameTable::getName – what gr_fref_label and gr_fref_value_label call
    # with the label's name id – must hand back the string of a record of the Unicode platform with that name id whenever there is
    # one (the one of the requested language if there is one), and nothing when there is none
    import struct
    import passgen
    nl, ninfo = [], {}
    for _ in range(1500 if ctx.quick() else 40000):
        recs = []
        for _k in range(r.choice([0, 0, 1, 2])):
            recs.append((1, 0, r.choice([0, 1]), r.randrange(256, 259), "".join(r.choice("macXYZ") for _j in range(r.randrange(1, 5)))))
        for _k in range(r.choice([1, 1, 1, 2, 3, 6])):
            recs.append((3, 1, r.choice([0x409, 0x409, 0x809, 0x40C, 0x411]), r.randrange(256, 259), "".join(r.choice("abcdé ") for _j in range(r.randrange(1, 6)))))
        recs = sorted(set((a, b, c, d) for a, b, c, d, _t in recs))
        recs = [(a, b, c, d, "".join(r.choice("abcdé ") for _j in range(r.randrange(1, 6)))) for a, b, c, d in recs]
        strings, rows = b"", []
        for pl, en, lang, nid, txt in recs:
            tb = txt.encode("utf-16-be")
            rows.append((pl, en, lang, nid, len(tb), len(strings)))
            strings += tb
        tab = struct.pack(">HHH", 0, len(rows), 6 + 12 * len(rows)) + b"".join(struct.pack(">6H", *x) for x in rows) + strings
        qs = [(r.choice([0x409, 0x809, 0x40C, 0x411, 0x109, 0]), r.randrange(256, 260)) for _k in range(6)]
        l = "name 3 1 %s %s" % (tab.hex(), ",".join("%d.%d" % x for x in qs))
        ninfo[l] = (recs, qs)
        nl.append(l)

    def digest(units):
        h = 7
        for x in units:
            h = (h * 1000003 + x + 1) % 4294967291
        return "%d:%d" % (len(units), h)

    def label_holds(line, out):
        if out.startswith(("CRASH", "fault")):
            return False, "crash / out-of-bounds access in NameTable"
        if line not in ninfo or not out.startswith("ok "):
            return (False, "a well-formed name table was refused: " + out[:60]) if line in ninfo else (None, "")
        recs, qs = ninfo[line]
        got = out.split()[2:]
        for (lang, nid), g in zip(qs, got):
            cands = [(l2, txt) for pl, en, l2, n2, txt in recs if pl == 3 and en == 1 and n2 == nid]
            if not cands:
                if g != "-":
                    return False, "label %d: the name table has no Unicode-platform record with that name id, yet a string came back" % nid
                continue
            if g == "-":
                return False, "label %d (language 0x%x): the name table has the string %r for it, gr_fref_label would answer NULL" % (nid, lang, cands[0][1])
            exact = [c for c in cands if c[0] == lang]
            allowed = exact if exact else cands
            ok = False
            for l2, txt in allowed:
                u = txt.encode("utf-16-be")
                units = [int.from_bytes(u[i:i + 2], "big") for i in range(0, len(u), 2)]
                if g == "%d:%s" % (l2, digest(units)):
                    ok = True
            if not ok:
                return False, "label %d (language 0x%x): what came back is not the string of %s record with that name id" % (nid, lang, "the requested language's" if exact else "a")
        return True, ""
    lib.correspond(ctx, res, "h_pass", "loader", nl, label_holds, exe_args=[BASE], per_chunk=300,
                   classify=lambda l, o: "labels:" + ("fault" if o.startswith(("fault", "CRASH")) else "none" if set(o.split()[2:]) <= {"-"} else "some"),
                   rule="labels: well-formed name tables (0..2 Mac records, 1..6 Windows Unicode records, 5 languages, 3 label ids) x 6 label queries each; the string handed back must be the name table's")
    return res.as_dict()


def matches_known(k, f):
    return False


def replay(ctx, obj):
    return lib.replay_lines(ctx, obj, {"feat": lambda l, o: ((False, "fault") if (o == "fault" or o.startswith("CRASH")) else (None, ""))})

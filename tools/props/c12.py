"""C12 — gr_make_seg consumes no more text than its contract allows (DESIGN.md §6 C12)."""
import itertools
import lib
from props import utfspec as U
from props import c11

GEN_MODULES = ["Utf"]
ASSUMPTIONS = ["a `fault` on the implementation side is an AddressSanitizer report: the text buffer is a heap allocation that ends exactly at the terminating NUL unit",
               "strings without any NUL inside the caller's memory are outside the contract and not generated"]
TRUSTED = c11.TRUSTED
FONT = c11.FONT


def holds(line, out):
    return c11.holds(line, out)


def gen(ctx):
    r = lib.rng("c12")
    q = ctx.quick()
    T = []
    over = [0, 1, 2, 7, 64, 4096]
    for enc, B in ((8, c11.B8), (16, c11.B16), (32, c11.B32)):
        nz = [b for b in B if b]
        # exact buffers: the string, then the terminator, nothing after it
        T.append("text %d %d %s" % (enc, 5, U.hex_of(enc, [0])))
        for n in (1, 2) if q else (1, 2, 3):
            for t in itertools.product(nz, repeat=n):
                for extra in (0, 3, 4096):
                    T.append("text %d %d %s" % (enc, len(t) + extra, U.hex_of(enc, list(t) + [0])))
        for _ in range(8000 if q else 150000):
            t = [u for u in c11.structured(r, enc, r.randrange(1, 12)) if u]
            nchars_true, _ = U.well_formed_chars(enc, t)
            for extra in r.sample(over, 2):
                # the manual recommends the code-unit count: >= the true character count
                T.append("text %d %d %s" % (enc, len(t) + extra, U.hex_of(enc, t + [0])))
        for _ in range(20 if q else 200):       # a huge over-estimate (allocates 2^20 char-infos each: few cases)
            t = [u for u in c11.structured(r, enc, r.randrange(1, 12)) if u]
            T.append("text %d %d %s" % (enc, 1 << 20, U.hex_of(enc, t + [0])))
        # nChars smaller than the text (budget ends first), and memory owned beyond the NUL
        for _ in range(2000 if q else 30000):
            t = [u for u in c11.structured(r, enc, r.randrange(1, 12)) if u]
            T.append("text %d %d %s" % (enc, r.randrange(0, len(t) + 1), U.hex_of(enc, t + [0] + [r.choice(B) for _ in range(r.randrange(0, 3))])))
    return T


def classify(l, o):
    w = l.split()
    enc, nchars = int(w[1]), int(w[2])
    units = U.units_of(enc, w[3])
    z = units.index(0)
    return "utf%d nChars%sunits-before-NUL -> %s" % (enc, "<" if nchars < z else "=" if nchars == z else ">", "n" if o.startswith("n=") else o.split()[0])


def run(ctx):
    res = lib.Result()
    T = gen(ctx)
    lib.correspond(ctx, res, "h_utf", "utf", T, holds, classify=classify, exe_args=[FONT],
                   rule="text: NUL-terminated strings in the three encodings held in heap buffers that end at the terminator, nChars from 0 up to the code-unit count + {0,1,2,7,64,4096} and a few 2^20; output = number of char-infos, their scalars and bases")
    return res.as_dict()


def replay(ctx, obj):
    return lib.replay_lines(ctx, obj, {"utf": holds})

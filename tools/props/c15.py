"""C15 — positions are design-unit results scaled linearly by the font size (DESIGN.md §6; partial)."""
import struct
import lib
import fontmut
from props import apihist, heapcheck, segspec

GEN_MODULES = []
ASSUMPTIONS = ["theorem: positionSlots/finalise with scale k > 0 gives exactly k times the design-unit origins and advance, for every heap and stream (Props/C15.lean); exact arithmetic, left-to-right, unhinted, no collision offsets",
               "the design-unit instance of the model is compared exactly with the engine on synthesised fonts; scaling on shipped fonts (right-to-left, collision fixing, attachments) is decided on the implementation by comparing font = NULL with sized fonts within single-precision tolerance"]
TRUSTED = ["hand-written Model/Position.lean tied by whole-pipeline correspondence (design units)"]

PPMS = ["1", "12", "24.5", "0.37", "1000", "4096", "7.75"]


def upem_of(path):
    data = open(path, "rb").read()
    t = fontmut.tables(data)
    off = t["head"][0]
    return struct.unpack(">H", data[off + 18:off + 20])[0]


def close(a, b, scale):
    """single-precision tolerance: the engine rounds every intermediate sum to float"""
    tol = 2e-5 * max(abs(a * scale), abs(b), 1.0) + 1e-4
    return abs(a * scale - b) <= tol


def compare(o, scale):
    parts = o.split(" | ")
    dumps = [p for p in parts if p.startswith("n=") or p == "noseg"]
    if len(dumps) != 2:
        return None, ""
    if (dumps[0] == "noseg") != (dumps[1] == "noseg"):
        return False, "a segment exists with one of font = NULL / sized font only"
    if dumps[0] == "noseg":
        return None, ""
    d0, d1 = segspec.parse_dump(dumps[0]), segspec.parse_dump(dumps[1])
    if len(d0["slots"]) != len(d1["slots"]):
        return False, "slot count depends on the font: %d vs %d" % (len(d0["slots"]), len(d1["slots"]))
    for k, (a, b) in enumerate(zip(d0["slots"], d1["slots"])):
        for f in ("gid", "before", "after", "original", "parent", "child", "sibling", "index"):
            if a[f] != b[f]:
                return False, "slot %d: %s depends on the font (%s vs %s)" % (k, f, a[f], b[f])
        for f in ("ox", "oy", "ax", "ay"):
            x, y = float.fromhex(a[f]), float.fromhex(b[f])
            if not close(x, y, scale):
                return False, "slot %d: %s = %.6g with the sized font, design value %.6g x scale %.6g = %.6g" % (k, f, y, x, scale, x * scale)
    for j in (0, 1):
        x, y = float.fromhex(d0["adv"][j]), float.fromhex(d1["adv"][j])
        if not close(x, y, scale):
            return False, "segment advance[%d] = %.6g with the sized font, design value %.6g x scale = %.6g" % (j, y, x, x * scale)
    return True, ""


def run(ctx):
    res = lib.Result()
    q = ctx.quick()
    # design-unit positions: model = engine, exactly
    heapcheck.shape_stage(ctx, res, 120 if q else 3000, 6 if q else 12)
    r = lib.rng("c15")
    exe = lib.build_harness("h_seg")
    fonts = apihist.font_paths()
    upem = [upem_of(f) for f in fonts]
    tdir = lib.REPO / "tests" / "texts"
    extra = {"Padauk.ttf": "my_HeadwordSyllables.txt", "Annapurnarc2.ttf": "udhr_nep.txt", "AwamiNastaliq-Regular.ttf": "awami_tests.txt", "Scheherazadegr.ttf": "udhr_arb.txt", "charis_r_gr.ttf": "udhr_eng.txt"}
    lines, sc = [], []
    for fi, (name, fdir, texts) in enumerate(apihist.FONTS):
        pool = list(texts)
        if name in extra and (tdir / extra[name]).exists():
            rows = [x.strip()[:50] for x in (tdir / extra[name]).read_text(encoding="utf-8", errors="replace").splitlines() if x.strip()]
            pool += r.sample(rows, min(len(rows), 40 if q else 400))
        if q and name.startswith("Awami_compressed"):
            continue
        for t in pool:
            for ppm in r.sample(PPMS, 2 if q else len(PPMS)):
                d = r.choice([fdir, fdir, 1 - fdir])
                lines.append("F0=%d,6,f;N0=0,%s;%s;D0;%s;D1" % (fi, ppm, apihist.seg_op(0, 0, -1, -1, t, d), apihist.seg_op(1, 0, 0, -1, t, d)))
                sc.append(float(ppm) / upem[fi])
    impl = lib.run_lines([exe] + fonts, lines, per_chunk=40)
    res.harness.append("h_seg NULL vs sized font (implementation only)")
    res.rules.append("scaling: %d shipped fonts x their sample texts and lines of tests/texts x both directions x ppm in {0.37,1,7.75,12,24.5,1000,4096}: ids, indices, associations and attachments identical; origins, slot advances and segment advance equal design value x ppm/upem within single-precision tolerance" % len(fonts))
    for l, o, s in zip(lines, impl, sc):
        res.evaluations += 1
        res.distinct.add(l)
        if o.startswith(("CRASH", "fault")):
            res.failures.append({"harness": "h_seg", "mode": "scale", "line": l, "impl": o[:300], "model": None, "why": "crash / sanitizer fault", "exe_args": fonts, "scale": s})
            continue
        ok, why = compare(o, s)
        res.count("scale:" + ("skip" if ok is None else "ok" if ok else "FAIL"))
        if ok is False:
            res.failures.append({"harness": "h_seg", "mode": "scale", "line": l, "impl": o[:400], "model": None, "why": why, "exe_args": fonts, "scale": s})
    res.samples.append({"in": lines[0][:300], "impl": impl[0][:200], "model": "(no model at this level)"})
    return res.as_dict()


def replay(ctx, obj):
    if obj.get("mode") == "shape":
        return heapcheck.replay_shape(obj)
    exe = lib.build_harness("h_seg")
    out = lib.run_lines([exe] + obj["exe_args"], [obj["line"]])[0]
    ok, why = compare(out, obj["scale"]) if not out.startswith(("CRASH", "fault")) else (False, "crash")
    print("input : %s\nimpl  : %s\nproperty predicate on impl output: %s %s" % (obj["line"][:400], out[:400], ok, why))
    return ok is False

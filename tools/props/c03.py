"""C03 — every returned segment exposes a well-formed glyph stream (DESIGN.md §6; partial: theorems cover the rule-action engine)."""
import lib
from props import heapcheck, heapspec, segspec

GEN_MODULES = ["Vm"]
ASSUMPTIONS = ["theorems: Linked/Clean invariants of Model/Seg.lean + Model/Action.lean for every action program and its garbage collection; "
               "the bidi pass, mirroring, finiteness of positions and glyph ids are not covered by a theorem - they are decided only by the end-to-end predicate on the implementation's output",
               "the loader's acceptance tests are not modelled: the component harness only runs programs the real loader accepted",
               "scalar opcodes inside action code use the regenerated Gen.Vm bodies"]
TRUSTED = ["hand-written model GrVerif/Model/{Seg,Action}.lean (tied by correspondence on action programs)", "tools/fontsynth.py (font synthesiser) and tools/heapgen.py"]


def pred_heap(f, s, n):
    return heapspec.c03_stream(f, s)


def pred_seg(d, t, meta):
    ok, why = segspec.c03(d, meta["nglyphs"])
    return ok, why, "c03"


def run(ctx):
    res = lib.Result()
    q = ctx.quick()
    heapcheck.component(ctx, res, pred_heap, 3000 if q else 60000, "predicate: stream walk / last / prev inverse / no deleted slot in the stream")
    heapcheck.end_to_end(ctx, res, pred_seg, 150 if q else 2500, 6 if q else 12, 10 if q else len(heapcheck.WORDS))
    heapcheck.shape_stage(ctx, res, 120 if q else 3000, 6 if q else 12, pred=pred_seg)
    return res.as_dict()


def replay(ctx, obj):
    if obj.get("mode") == "shape":
        return heapcheck.replay_shape(obj)
    if obj.get("mode") == "e2e":
        return heapcheck.replay_e2e(obj, pred_seg)

    def holds(l, i):
        if "status=" not in i:
            return (False, "crash") if i.startswith(("CRASH", "fault")) else (None, "")
        f, s = heapspec.parse(i)
        return pred_heap(f, s, int(l.split()[3]))
    return lib.replay_lines(ctx, obj, {"heap": holds})

"""C09 — a preloaded face and unhinted font can be shared by concurrent shapers (DESIGN.md §6; partial: exploration for the interleavings)."""
import lib
from props import apihist

GEN_MODULES = []
ASSUMPTIONS = ["theorems: a preloaded glyph cache is never written by a request, and answers do not depend on other requests (Props/C09.lean)",
               "interleavings of the real code are sampled (ThreadSanitizer + comparison with single-threaded results), not enumerated: for them this check is exploration, not proof",
               "sanity of the detector: the same harness on a lazily loading face (outside the property) is expected to show the GlyphCache race; it is run and its verdict recorded in the evidence"]
TRUSTED = ["ThreadSanitizer as the oracle for data races (finite sample of schedules)", "hand-written Model/Borrow.lean (glyph cache)"]
TSAN_ENV = {"TSAN_OPTIONS": "halt_on_error=1 exitcode=66 report_signal_unsafe=0"}


def verdict(o):
    if o.startswith(("CRASH", "fault")):
        return False, "data race / crash reported by the sanitizer: " + o[:220]
    if o.startswith("noface"):
        return None, ""
    f = dict(x.split("=") for x in o.split() if "=" in x)
    if f.get("mismatches", "0") != "0":
        return False, "a thread obtained a segment that differs from the single-threaded one: " + o
    if f.get("fresh_diff", "0") != "0":
        return False, "the shared face answers differently from a fresh face after the concurrent run: " + o
    if f.get("late_gets", "0") != "0":
        return False, "a table callback was invoked after gr_make_face on a preloadAll face: " + o
    return True, ""


def run(ctx):
    res = lib.Result()
    q = ctx.quick()
    r = lib.rng("c09")
    fonts = apihist.font_paths()
    lines = []
    for _ in range(24 if q else 600):
        fi = r.randrange(len(apihist.FONTS) - (2 if q else 0))
        name, fdir, texts = apihist.FONTS[fi]
        ts = r.sample(texts, min(len(texts), 3)) + ["", "zz"]
        lines.append("%d %d %d %d %d %s" % (fi, r.choice([6, 6, 7]), r.choice([2, 4, 8, 16]), r.choice([2, 3]), r.choice([0, 1]), ";".join(apihist.hx(t) if t else "" for t in ts if t)))
    for san, env in (("tsan", TSAN_ENV), ("asan", None)):
        exe = lib.build_harness("h_thr", san=san)
        impl = lib.run_lines([exe] + fonts, lines, per_chunk=4, env=env, timeout=300)
        res.harness.append("h_thr/" + san)
        for l, o in zip(lines, impl):
            res.evaluations += 1
            res.distinct.add(san + " " + l)
            ok, why = verdict(o)
            res.count("threads:%s:%s" % (san, "skip" if ok is None else "ok" if ok else "FAIL"))
            if ok is False:
                res.failures.append({"harness": "h_thr", "mode": "threads", "san": san, "line": l, "impl": o[:500], "model": None, "why": why, "exe_args": fonts})
    res.rules.append("threads: %d shipped fonts, cold face made with gr_face_preloadAll (with/without dumbRendering) through callbacks, 2..16 threads x 2..3 rounds over 3..5 texts in both directions each in its own order, feature queries from every thread; compared with the single-threaded result on the same face and on a fresh face; built with ThreadSanitizer and with AddressSanitizer" % len(fonts))
    # detector sanity: a lazily loading face is outside the property and does race
    exe = lib.build_harness("h_thr", san="tsan")
    name, fdir, texts = apihist.FONTS[0]
    probe = lib.run_lines([exe] + fonts, ["0 0 8 3 0 " + ";".join(apihist.hx(t) for t in texts[:3])], env=TSAN_ENV, timeout=300)[0]
    res.extra["detector_sees_lazy_cache_race"] = probe.startswith("CRASH") and "data race" in probe
    res.samples.append({"in": lines[0][:200], "impl": "(see correspondence distribution)", "model": "(no model at this level)"})
    return res.as_dict()


def replay(ctx, obj):
    exe = lib.build_harness("h_thr", san=obj.get("san", "tsan"))
    o = lib.run_lines([exe] + obj["exe_args"], [obj["line"]], env=TSAN_ENV if obj.get("san") == "tsan" else None, timeout=300)[0]
    ok, why = verdict(o)
    print("input : %s\nimpl  : %s\nproperty predicate: %s %s" % (obj["line"][:300], o[:400], ok, why))
    return ok is False

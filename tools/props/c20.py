"""C20 — tag/string conversions honour their documented buffer contracts (DESIGN.md §6 C20)."""
import itertools
import lib

GEN_MODULES = ["Pads"]
ASSUMPTIONS = ["char is 8 bits; a `fault` on the implementation side is an AddressSanitizer report on an exact-size heap buffer",
               "tag-taking API entry points (lang / feature / script lookups) are exercised by the C18 check, which shares Gen.Pads"]
TRUSTED = ["hand-written model GrVerif/Model/Tag.lean (tied by correspondence)", "Gen.Pads regenerated from gr_face.cpp / gr_segment.cpp"]

BOUND = [0x00, 0x01, 0x1f, 0x20, 0x21, 0x41, 0x61, 0x7f, 0x80, 0x81, 0xc3, 0xe9, 0xfe, 0xff]


def spec_tag(bs):
    s = bs[:bs.index(0)] if 0 in bs else bs
    s = (s[:4] + [0, 0, 0, 0])[:4]
    return (s[0] << 24) | (s[1] << 16) | (s[2] << 8) | s[3]


def spec_pad(t):
    b = [(t >> 24) & 255, (t >> 16) & 255, (t >> 8) & 255, t & 255]
    i = 3
    while i >= 0 and b[i] == 0x20:
        b[i] = 0
        i -= 1
    return (b[0] << 24) | (b[1] << 16) | (b[2] << 8) | b[3]


def holds(line, out):
    """The property itself, evaluated on what the implementation did."""
    w = line.split()
    if out.startswith("CRASH"):
        return False, "the implementation crashed"
    if w[0] == "str2tag":
        bs = list(bytes.fromhex(w[1]))
        if out == "fault":
            return False, "read outside the NUL-terminated string's buffer"
        want = "ok %08x" % spec_tag(bs)
        return (out == want), "expected %s" % want
    if w[0] == "tag2str":
        t = int(w[1], 16)
        buf = list(bytes.fromhex(w[2]))
        if out == "fault":
            return False, "wrote outside the four tag bytes"
        want = [(t >> 24) & 255, (t >> 16) & 255, (t >> 8) & 255, t & 255] + buf[4:]
        return (out == "ok " + lib.hexs(want)), "expected ok " + lib.hexs(want)
    return None, ""


def gen(ctx):
    r = lib.rng("c20")
    lines = []
    # all strings of length 0..2 over all 256 byte values (NUL terminates), exact buffers
    lines.append("str2tag 00")
    for a in range(1, 256):
        lines.append("str2tag %02x00" % a)
    step = 1 if not ctx.quick() else 1
    for a in range(1, 256, step):
        for b in range(1, 256):
            lines.append("str2tag %02x%02x00" % (a, b))
    # boundary bytes for length 3..8; thorough: all of length 3
    nz = [b for b in BOUND if b]
    if ctx.quick():
        for n in (3,):
            for t in itertools.product(nz, repeat=n):
                lines.append("str2tag " + lib.hexs(t) + "00")
    else:
        for a in range(1, 256):
            for b in range(1, 256):
                for c in nz + r.sample(range(1, 256), 20):
                    lines.append("str2tag %02x%02x%02x00" % (a, b, c))
    for n in range(4, 9):
        for _ in range(3000 if ctx.quick() else 60000):
            t = [r.choice(nz) if r.random() < 0.7 else r.randrange(1, 256) for _ in range(n)]
            lines.append("str2tag " + lib.hexs(t) + "00")
    # strings followed by more memory the caller also owns (embedded NUL): still only the prefix counts
    for _ in range(2000 if ctx.quick() else 20000):
        n = r.randrange(0, 6)
        t = [r.randrange(1, 256) for _ in range(n)] + [0] + [r.randrange(0, 256) for _ in range(r.randrange(0, 5))]
        lines.append("str2tag " + lib.hexs(t))
    tags = set()
    for t in itertools.product([0, 0x20, 0x41, 0x7f, 0x80, 0xff], repeat=4):
        tags.add((t[0] << 24) | (t[1] << 16) | (t[2] << 8) | t[3])
    for _ in range(2000 if ctx.quick() else 50000):
        tags.add(r.getrandbits(32))
    t2s = []
    for t in sorted(tags):
        t2s.append("tag2str %08x aaaaaaaa" % t)              # exactly four bytes
        t2s.append("tag2str %08x 5555555555555555" % t)      # a larger buffer: cells 4.. must be untouched
    pads = ["pad %08x" % t for t in sorted(tags)]
    return lines, t2s, pads


def holds_pad(line, out):
    return None, ""


def run(ctx):
    res = lib.Result()
    s2t, t2s, pads = gen(ctx)

    def cls(l, o):
        n = (len(l.split()[1]) // 2) if l.startswith("str2tag") else 0
        return "%s len=%s -> %s" % (l.split()[0], n if n < 9 else "9+", o.split()[0])
    lib.correspond(ctx, res, "h_tag", "tag", s2t, holds, classify=cls, trivial=lambda l: l == "str2tag 00",
                   rule="str2tag: all strings of length 0..2 over 256 byte values, boundary/random bytes for length 3..8, embedded NULs; exact-size heap buffers under ASan")
    lib.correspond(ctx, res, "h_tag", "tag", t2s, holds, classify=cls,
                   rule="tag2str: boundary-byte products and random 32-bit tags into a 4-byte and an 8-byte heap buffer")
    # zeropad is regenerated from the source (Gen.Pads); the model's evaluation of it is compared with the Python spec
    if ctx.model_ok:
        outs = lib.run_lines([lib.driver_path(), "tag"], pads)
        for l, o in zip(pads, outs):
            t = int(l.split()[1], 16)
            want = "%08x %08x" % (spec_pad(t), spec_pad(t))
            res.evaluations += 1
            res.distinct.add(l)
            if o != want:
                res.failures.append({"harness": "gen", "mode": "tag", "line": l, "impl": o, "model": want,
                                     "why": "the padding chain extracted from the source does not zero trailing spaces"})
        res.harness.append("Gen.Pads/tag")
    return res.as_dict()


def replay(ctx, obj):
    return lib.replay_lines(ctx, obj, {"tag": holds})

"""Shared runner of C03 / C04 / C05 (DESIGN.md §6 "the slot heap"):
  (a) component level: random loader-valid action programs on the real Segment/SlotMap/Machine (h_heap) against the Lean
      model (grdriver heap), property predicate on the implementation's heap dump;
  (b) end to end: synthesised fonts with random rule sets (tools/fontsynth.py) and the shipped fonts through the public
      API (h_seg), property predicate on the public-API dump (no model at this level)."""
import json
import os
import shutil
import lib
import heapgen
import fontsynth
from props import heapspec, segspec

FONT0 = str(lib.REPO / "tests" / "fonts" / "general.ttf")
SHIPPED = ["Padauk.ttf", "charis_r_gr.ttf", "Scheherazadegr.ttf", "Annapurnarc2.ttf", "AwamiNastaliq-Regular.ttf", "MagyarLinLibertineG.ttf", "general.ttf", "charis.ttf"]
# texts with runs of two and more combining marks (reverseSlots keeps such runs behind their base), digits, mixed scripts
MARKS = ["\u0628\u064e\u0651\u0628", "\u0628\u0628\u064e\u0651\u0628", "\u0667\u064e\u064e\u0667", "\u067a\u0327\u0327\u0327\u067a", "\u0644\u0651\u064e\u0670\u0647",
         "a\u0301\u0302\u0303b", "\u1000\u1031\u102c\u1037\u103a", "\u0915\u094d\u0937\u093f\u0902\u0901", "x\u0323\u0323\u0323\u0323y\u0301", "\u0628\u064e", "\u064e\u0651"]
WORDS = ["hello", "affinity", "office", "Wörld", "naïve", "ကောင်း", "မြန်မာ", "السلام",
         "عليكم", "क्षि", "नमस्ते", "ạ́", "x̂́y", "fi fl ffi", "1/2 3/4", "Ą̊",
         "กำไร", " ", "", "abc def ghi", "گرافیت", "پاکستان", "éèê", "�퟿", "T̥̄o"]


ATTACH_HEAVY = ("attach", "attach", "attach", "next", "next", "delete", "put_copy", "insert")


def heap_lines(r, n):
    lines = []
    for k in range(n):
        ns = r.randrange(1, 9)
        ctxt = r.randrange(0, min(3, ns))
        start = r.randrange(ctxt, ns)
        win = r.randrange(1, min(6, ns - (start - ctxt)) + 1)
        if k % 3 == 2:
            # attachment-heavy stream: several slots attached to the same parent, re-attached, deleted
            ns = r.randrange(3, 9)
            ctxt = r.randrange(0, 2)
            start = ctxt
            win = r.randrange(3, min(6, ns) + 1)
            prog, kinds = heapgen.gen_action(r, ctxt, win, max_ops=18, allow=ATTACH_HEAVY)
        else:
            prog, kinds = heapgen.gen_action(r, ctxt, win)
        lines.append("heap %d %d %d %d %d %d %d %s" % (r.choice([0, 1]), r.choice([100, 2, 1, 5]), ns, start, ctxt, win, r.choice([-1, start, 0]), lib.hexs(prog)))
    return lines


def classify_heap(l, i):
    if i.startswith("load"):
        return "rejected-by-loader"
    for st in ("finished", "died_early", "slot_offset_out_bounds", "stack"):
        if "status=" + st in i:
            return st
    return i.split()[0][:20] if i else "empty"


def component(ctx, res, pred, n, tagrule):
    """pred(fields, slots, nchars) -> (ok, why) on the h_heap dump"""
    r = lib.rng("heap")
    lines = heap_lines(r, n)

    def holds(l, i):
        if i.startswith("CRASH") or i.startswith("fault"):
            return False, "crash / out-of-bounds access while running the action"
        if "status=" not in i:
            return None, ""
        f, s = heapspec.parse(i)
        return pred(f, s, int(l.split()[3]))
    lib.correspond(ctx, res, "h_heap", "heap", lines, holds, classify=classify_heap, exe_args=[FONT0], per_chunk=400,
                   rule="heap: 1..8 slots, rule window 1..5 with 0..2 context slots, 1..13 opcodes from {next, copy_next, insert, delete, put_copy, assoc, attr_set attach.to, attr_set_slot attach.to, attr_set other} accepted by the real loader; " + tagrule)


def split_curok(m):
    """the driver's shape mode prefixes its answer with curok=<0|1> (fontOK of Proofs/CursorShape.lean)"""
    if m and m.startswith("curok="):
        k, _, rest = m.partition(" ")
        return k[6:], rest
    return None, m


def text_of(word, enc=32):
    cps = [ord(c) for c in word]
    return "".join("%08x" % c for c in cps) or "-", cps


def pos_ops(desc):
    """does a positioning pass of the synthesised font contain ASSOC or PUT_COPY?"""
    for pi, rules in enumerate(desc["rules"]):
        if pi >= desc["ipos"] and any(k in ("assoc", "put_copy") for ru in rules for k in ru["kinds"]):
            return True
    return False


def end_to_end(ctx, res, pred, nfonts, ntexts, shipped_words):
    """pred(dump, text_cps, meta) -> (ok, why, tag) on the h_seg dump; meta has 'nglyphs' (synth) and 'pos_assoc'"""
    r = lib.rng("e2e")
    exe = lib.build_harness("h_seg")
    tmp = lib.CACHE / ("fonts-%d" % os.getpid())
    tmp.mkdir(parents=True, exist_ok=True)
    try:
        fonts, metas, lines, info = [], [], [], []
        for i in range(nfonts):
            data, desc = fontsynth.gen_font(r, rtl=bool(i % 2))        # every other font: reverse-direction passes and bidi-class-16 glyphs
            p = tmp / ("f%d.ttf" % i)
            p.write_bytes(data)
            fonts.append(str(p))
            meta = {"nglyphs": fontsynth.NG, "pos_assoc": pos_ops(desc), "synth": True}
            for _ in range(ntexts):
                t = fontsynth.gen_text(r)
                nch = -1 if r.random() < 0.8 else len(t) + r.randrange(1, 9)
                lines.append("F0=%d,0,f;S0=0,-1,-1,0,32,%d,%d,%s;D0" % (i, r.choice([0, 1, 0, 3, 2]), nch, "".join("%08x" % c for c in t) or "-"))
                info.append((t, meta))
        # past failures first-class: fonts (with their texts) on which an earlier tree crashed or broke a predicate, kept under /verif/corpus/e2e
        for cf in sorted((lib.ROOT / "corpus" / "e2e").glob("*.json")):
            c = json.loads(cf.read_text())
            p = tmp / ("c%d.ttf" % len(fonts))
            p.write_bytes(bytes.fromhex(c["font_hex"]))
            fonts.append(str(p))
            meta = {"nglyphs": c.get("nglyphs", fontsynth.NG), "pos_assoc": bool(c.get("pos_assoc")), "synth": True}
            for t in c["texts"]:
                for d in c.get("dirs", [0, 1]):
                    lines.append("F0=%d,0,f;S0=0,-1,-1,0,32,%d,-1,%s;D0" % (len(fonts) - 1, d, "".join("%08x" % x for x in t) or "-"))
                    info.append((t, meta))
        nsynth = len(fonts)
        ship = [f for f in SHIPPED if (lib.REPO / "tests" / "fonts" / f).exists()]
        for j, f in enumerate(ship):
            fonts.append(str(lib.REPO / "tests" / "fonts" / f))
            meta = {"nglyphs": None, "pos_assoc": False, "synth": False}
            extra = []
            tdir = lib.REPO / "tests" / "texts"
            for tf in (["udhr_arb.txt", "awami_tests.txt"] if f.startswith(("Sche", "Awami")) else ["udhr_eng.txt"] if f.startswith(("charis", "Magyar")) else []):
                if (tdir / tf).exists():
                    rows = [x.strip() for x in (tdir / tf).read_text(encoding="utf-8", errors="replace").splitlines() if x.strip()]
                    extra += [x[:40] for x in r.sample(rows, min(len(rows), shipped_words))]
            for w in WORDS[:shipped_words] + MARKS + extra:
                w = "".join(c for c in w if not (0xD800 <= ord(c) < 0xE000))
                for d in (0, 1):
                    hx, cps = text_of(w)
                    # the caller's character count may over-estimate a NUL-terminated text (C12): the segment must still be consistent
                    nch = -1 if r.random() < 0.7 else len(cps) + r.randrange(1, 9)
                    lines.append("F0=%d,%d,f;S0=0,-1,-1,0,32,%d,%d,%s;D0" % (nsynth + j, r.choice([0, 4, 8, 12]), d, nch, hx))
                    info.append((cps, meta))
        impl = lib.run_lines([exe] + fonts, lines, per_chunk=100)
        res.harness.append("h_seg (implementation only)")
        res.rules.append("e2e: %d synthesised fonts (1..3 passes, 1..5 rules each, trie FSM over 2|3|9 glyph columns, random loader-valid actions, optional constraints, ltr/rtl) x %d random texts x dir 0..3; %d shipped fonts x %d words x dir 0,1"
                         % (nsynth, ntexts, len(ship), shipped_words))
        for l, i, (t, meta) in zip(lines, impl, info):
            res.evaluations += 1
            res.distinct.add(l)
            if i.startswith("CRASH") or i.startswith("fault"):
                res.failures.append({"harness": "h_seg", "mode": "e2e", "line": l, "impl": i[:300], "model": None, "why": "crash / sanitizer fault in gr_make_seg", "tag": "fault",
                                     "font_hex": open(fonts[int(l.split("=")[1].split(",")[0])], "rb").read().hex() if meta["synth"] else None,
                                     "font": None if meta["synth"] else fonts[int(l.split("=")[1].split(",")[0])]})
                res.count("e2e:fault")
                continue
            d = segspec.parse_dump(i)
            if d is None:
                res.count("e2e:" + (i.split()[0] if i else "empty"))
                continue
            ok, why, tag = pred(d, t, meta)
            res.count("e2e:" + ("synth" if meta["synth"] else "shipped") + (":ok" if ok else ":" + tag))
            if not ok:
                fi = int(l.split("=")[1].split(",")[0])
                res.failures.append({"harness": "h_seg", "mode": "e2e", "line": l, "impl": i[:600], "model": None, "why": why, "tag": tag, "pos_assoc": meta["pos_assoc"],
                                     "font_hex": open(fonts[fi], "rb").read().hex() if meta["synth"] else None, "font": None if meta["synth"] else fonts[fi]})
        res.samples.append({"in": lines[0][:200], "impl": impl[0][:300], "model": "(no model at this level)"})
    finally:
        shutil.rmtree(tmp, ignore_errors=True)


def replay_e2e(obj, pred):
    """replay of an end-to-end failure: the font travels inside the replay file"""
    exe = lib.build_harness("h_seg")
    tmp = lib.CACHE / ("replay-%d" % os.getpid())
    tmp.mkdir(parents=True, exist_ok=True)
    try:
        if obj.get("font_hex"):
            p = tmp / "f.ttf"
            p.write_bytes(bytes.fromhex(obj["font_hex"]))
            font = str(p)
        else:
            font = obj["font"]
        ops = obj["line"].split(";")
        ops[0] = "F0=0," + ops[0].split(",", 1)[1]
        line = ";".join(ops)
        out = lib.run_lines([exe, font], [line])[0]
        print("input : %s\nimpl  : %s" % (line[:300], out[:800]))
        d = segspec.parse_dump(out)
        if out.startswith("fault") or out.startswith("CRASH"):
            print("property predicate: False (crash / sanitizer fault)")
            return True
        if d is None:
            print("no segment")
            return False
        hexs = ops[1].split(",")[-1]
        t = [] if hexs == "-" else [int(hexs[k:k + 8], 16) for k in range(0, len(hexs), 8)]
        ok, why, tag = pred(d, t, {"nglyphs": fontsynth.NG if obj.get("font_hex") else None, "pos_assoc": obj.get("pos_assoc", False), "synth": bool(obj.get("font_hex"))})
        print("property predicate on impl output: %s %s" % (ok, why))
        return not ok
    finally:
        shutil.rmtree(tmp, ignore_errors=True)


def _num(h):
    """hex float of the dump -> exact rational string as the model prints it"""
    from fractions import Fraction
    try:
        f = Fraction(float.fromhex(h))
    except ValueError:
        return h
    return str(f.numerator) if f.denominator == 1 else "%d/%d" % (f.numerator, f.denominator)


def proj_dump(x):
    """the part of the public-API dump the pass-engine model also yields: glyph ids, association, attachment parent / first
    child / next sibling (incl. the base chain of linkClusters), origin and advance in design units (the dump was made without a font), the slot index, and the segment advance"""
    d = segspec.parse_dump(x)
    if d is None:
        return x.split()[0] if x else "empty"
    return ("n=%d walk=%d adv=%s,%s " % (d["n"], d["walk"], _num(d["adv"][0]), _num(d["adv"][1]))
            + " ".join("s:%d,%d,%d,%d,%d,%d,%d,%s,%s,%s,%d" % (s["gid"], s["before"], s["after"], s["original"], s["parent"], s["child"], s["sibling"], _num(s["ox"]), _num(s["oy"]), _num(s["ax"]), s["index"])
                       for s in d["slots"])).strip()


def shape_stage(ctx, res, nfonts, ntexts, as_failure=False, gen_kw=None, fontgen=None, textgen=None, pred=None, label=None, refusable=False):
    """whole-pipeline correspondence: synthesised fonts (both directions) shaped by the real engine (public API) and by the
    Lean pass-engine model (grdriver shape); glyph ids, associations and attachments must be identical"""
    import re
    r = lib.rng("shape")
    exe = lib.build_harness("h_seg")
    tmp = lib.CACHE / ("shape-%d" % os.getpid())
    tmp.mkdir(parents=True, exist_ok=True)
    try:
        fonts, lines, mlines = [], [], []
        for i in range(nfonts):
            # every other font exercises the direction machinery: a right-to-left or left-to-right font, passes that run
            # against the font's direction, glyphs of bidi class 16, and requests in either direction
            both = fontgen is None and i % 2 == 1
            data, desc = fontgen(r) if fontgen else (fontsynth.gen_font(r, rtl=True, **(gen_kw or {})) if both else fontsynth.gen_font(r, dirn=0, **(gen_kw or {})))
            p = tmp / ("f%d.ttf" % i)
            p.write_bytes(data)
            fonts.append(str(p))
            for _ in range(ntexts):
                t = textgen(r) if textgen else fontsynth.gen_text(r)
                hx = "".join("%08x" % c for c in t) or "-"
                # the direction argument of gr_make_seg: bit 0 right to left, bit 1 gr_nobidi, bit 2 gr_nomirror
                d = r.choice([0, 1, 1, 3, 3, 7]) if both else 0
                lines.append("F0=%d,0,f;S0=0,-1,-1,0,32,%d,-1,%s;R0;D0" % (i, d, hx))
                mlines.append("shape %s dir=%d text=%s" % (desc["model"], d, hx))
        impl = lib.run_lines([exe] + fonts, lines, per_chunk=100)
        model = lib.run_lines([lib.driver_path(), "shape"], mlines, per_chunk=100) if ctx.model_ok else [None] * len(lines)
        res.harness.append("h_seg vs grdriver shape")
        res.rules.append(label % (nfonts, ntexts) if label else "shape: %d synthesised fonts (half of them left-to-right with left-to-right requests, half in either direction with passes running against the font's direction, bidi-class-16 glyphs and requests in either direction; 1..3 passes, 1..5 rules per pass over 2|3|9 overlapping glyph columns, uniform pre-context 0..2, rule length 1..3, constraints on glyph attributes, actions next/insert/delete/put_copy/assoc/attach/attr_set/put_glyph) x %d texts of 0..12 characters" % (nfonts, ntexts))
        for l, ml, i, m in zip(lines, mlines, impl, model):
            res.evaluations += 1
            res.distinct.add(ml)
            curok, m = split_curok(m)
            iloop, _, ibody = i.partition(" | ") if i.startswith("loop=") else ("", "", i)
            if curok is not None:
                # the hypothesis of no_write_through_a_null_cursor (every rule's code passes the loader's cursor tests), evaluated by the
                # model on this font: it must hold of every font the real loader accepted
                res.count("shape:rule-code-passes-cursor-tests=" + curok)
                if curok == "1" and (m or "").startswith("fault"):
                    # pipeline_never_faults: with its hypotheses (evaluated by the driver: curok=1) the model cannot stop with an error
                    res.failures.append({"harness": "h_seg", "mode": "shape", "line": ml, "impl": ibody[:300], "model": m[:300], "exe_args": [], "tag": "total",
                                         "font_hex": open(fonts[int(l.split("=")[1].split(",")[0])], "rb").read().hex(), "api_line": l,
                                         "why": "the pipeline model stops with an error on a font that meets the hypotheses of pipeline_never_faults: " + m[:120]})
                if curok != "1" and not ibody.startswith("noface") and not i.startswith(("CRASH", "fault")):
                    res.failures.append({"harness": "h_seg", "mode": "shape", "line": ml, "impl": ibody[:300], "model": (m or "")[:300], "exe_args": [], "tag": "cursor-hyp",
                                         "font_hex": open(fonts[int(l.split("=")[1].split(",")[0])], "rb").read().hex(), "api_line": l,
                                         "why": "the loader accepted a font whose rule code fails the cursor tests (_out_index/_out_length bookkeeping of fetch_opcode): the hypothesis of no_write_through_a_null_cursor is not met, the machine may write through a null slot"})
            if refusable and ibody.startswith("noface"):
                # a generator that does not track the loader's tests: a font the loader refuses says nothing about the engine
                res.count("shape:refused-by-the-loader")
                continue
            pi = proj_dump(ibody)
            if i.startswith(("CRASH", "fault")):
                res.failures.append({"harness": "h_seg", "mode": "shape", "line": ml, "impl": i[:300], "model": m, "why": "crash / sanitizer fault (or hang) in gr_make_seg on a synthesised font", "tag": "fault",
                                     "exe_args": [], "font_hex": open(fonts[int(l.split("=")[1].split(",")[0])], "rb").read().hex(), "api_line": l})
                continue
            if pred is not None:
                d = segspec.parse_dump(ibody)
                if d is not None:
                    ok, why, tag = pred(d, None, {"nglyphs": fontsynth.NG, "pos_assoc": True, "synth": True})
                    res.count("shape:pred:" + ("ok" if ok else tag))
                    if not ok:
                        res.failures.append({"harness": "h_seg", "mode": "shape", "line": ml, "impl": ibody[:600], "model": m, "why": why, "tag": tag, "exe_args": [], "pos_assoc": True,
                                             "font_hex": open(fonts[int(l.split("=")[1].split(",")[0])], "rb").read().hex(), "api_line": l})
            if m is None:
                continue
            mm = re.match(r"trie=(\S*) (loop=\S+ passes=\S+ exceeded=\S+ )?(noid=\S+ )?(?:gidok=\S+ )?(.*)", m)
            tb, mloop, mbody = (mm.group(1), (mm.group(2) or "").strip(), mm.group(4).strip()) if mm else ("?", "", m)
            if mm and mm.group(3):
                res.count("shape:positioning-passes-neither-insert-nor-delete=" + mm.group(3).strip()[5:])
            gk = re.search(r" gidok=(\S+) ", m)
            if gk:
                # the hypothesis of glyph_ids_are_real_glyphs (cmap and classes name only real glyphs), evaluated by the model on this font
                res.count("shape:cmap-and-classes-name-real-glyphs=" + gk.group(1))
                if gk.group(1) == "1":
                    bad = [int(x[2:].split(",")[0]) for x in m.split() if x.startswith("s:") and int(x[2:].split(",")[0]) >= fontsynth.NG]
                    if bad:
                        res.failures.append({"harness": "h_seg", "mode": "shape", "line": ml, "impl": ibody[:600], "model": m[:600], "exe_args": [], "tag": "gid-range",
                                             "font_hex": open(fonts[int(l.split("=")[1].split(",")[0])], "rb").read().hex(), "api_line": l,
                                             "why": "the model returns glyph id %d >= %d on a font that meets the hypothesis of glyph_ids_are_real_glyphs" % (bad[0], fontsynth.NG)})
            if "exceeded=1" in iloop:
                res.failures.append({"harness": "h_seg", "mode": "shape", "line": ml, "impl": iloop, "model": mloop, "exe_args": [], "tag": "loop-bound",
                                     "font_hex": open(fonts[int(l.split("=")[1].split(",")[0])], "rb").read().hex(), "api_line": l,
                                     "why": "the rule loop of a pass ran more iterations than maxRuleLoop x (slots + insert budget + 2): " + iloop})
            if pi != "noseg" and mloop and iloop != mloop:
                res.count("shape:loop-count-differs")
                pi = iloop + " " + pi
                mbody = mloop + " " + mbody
            res.count("shape:tables-encode-patterns=" + ("yes" if tb and set(tb) == {"1"} else "no:" + tb))
            res.count("shape:" + ("noseg" if pi == "noseg" else "segment"))
            if pi != mbody:
                rec = {"harness": "h_seg", "mode": "shape", "line": ml, "impl": pi[:600], "model": mbody[:600], "exe_args": [],
                       "font_hex": open(fonts[int(l.split("=")[1].split(",")[0])], "rb").read().hex(), "api_line": l,
                       "why": "the engine's glyph stream differs from the reference semantics of the pass-engine model"}
                if as_failure:
                    res.failures.append(rec)
                else:
                    res.disagreements.append(dict(rec, explained_by_failure=False))
        res.samples.append({"in": mlines[0][:300], "impl": proj_dump(impl[0])[:300], "model": (model[0] or "")[:300]})
    finally:
        shutil.rmtree(tmp, ignore_errors=True)


def replay_shape(obj):
    exe = lib.build_harness("h_seg")
    tmp = lib.CACHE / ("replay-%d" % os.getpid())
    tmp.mkdir(parents=True, exist_ok=True)
    try:
        p = tmp / "f.ttf"
        p.write_bytes(bytes.fromhex(obj["font_hex"]))
        ops = obj["api_line"].split(";")
        ops[0] = "F0=0," + ops[0].split(",", 1)[1]
        import re
        raw = lib.run_lines([exe, str(p)], [";".join(ops)])[0]
        iloop, _, ibody = raw.partition(" | ") if raw.startswith("loop=") else ("", "", raw)
        out = proj_dump(ibody)
        m = lib.run_lines([lib.driver_path(), "shape"], [obj["line"]])[0]
        curok, m = split_curok(m)
        if curok is not None:
            print("rule code passes the loader's cursor tests (model): %s" % curok)
            if obj.get("tag") == "cursor-hyp":
                return curok != "1" and not raw.startswith("noface")
        mm = re.match(r"trie=(\S*) (loop=\S+ passes=\S+ exceeded=\S+ )?(noid=\S+ )?(?:gidok=\S+ )?(.*)", m)
        if mm:
            print("loop  : impl %s | model %s" % (iloop, (mm.group(2) or "").strip()))
            m = mm.group(4).strip()
            if out != "noseg" and (mm.group(2) or "").strip() and iloop != (mm.group(2) or "").strip():
                out, m = iloop + " " + out, (mm.group(2) or "").strip() + " " + m
        print("model line: %s\nimpl : %s\nmodel: %s\nsame: %s" % (obj["line"][:400], out[:500], m[:500], out == m))
        return out != m
    finally:
        shutil.rmtree(tmp, ignore_errors=True)

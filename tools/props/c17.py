"""C17 — collision fixing: the interval set `Zones` (DESIGN.md §6 C17; partial)."""
from fractions import Fraction
import lib

GEN_MODULES = []
ASSUMPTIONS = ["interval end points and cost inputs are small integers, so every float operation of Zones except the division in test_position is exact",
               "closest results whose exact value is not a float-exact dyadic rational are compared only approximately (counted as 'inexact_division_cases')",
               "only the interval-set sentence of the property is decided here; ShiftCollider/KernCollider geometry (limit containment, truth of the resolved verdict) is not covered"]
TRUSTED = ["hand-written model GrVerif/Model/Zones.lean (tied by correspondence on operation sequences)"]


def parse(out):
    cs, iv = [], []
    for tok in out.split():
        if tok.startswith("c="):
            p, c = tok[2:].split(",")
            cs.append((Fraction(p), Fraction(c)))
        elif tok.startswith("["):
            f = tok.strip("[]").split(",")
            iv.append((Fraction(f[0]), Fraction(f[1]), f[2] == "1"))
    return cs, iv


def gen(ctx, r):
    lines = []
    n = 4000 if ctx.quick() else 200000
    for _ in range(n):
        lo = r.choice([0, -50, -100, 10])
        hi = lo + r.choice([1, 2, 10, 100, 200])
        kind = r.choice(["xy", "sd"])
        ops = []
        for _ in range(r.randrange(1, 25)):
            k = r.random()
            a = r.randrange(lo - 20, hi + 20)
            b = a + r.choice([0, 1, 1, 2, 5, 10, 50, -3])
            if k < 0.4:
                ops.append("x,%d,%d" % (a, b))
            elif k < 0.8:
                ops.append("w,%s,%d,%d,%d,%d,%d,%d,%d,%d,%d" % (r.choice(["xy", "sd"]), a, b, r.choice([0, 1, 2]), r.choice([0, 1, 3]),
                                                            r.choice([0, 1, 2, 4, -1]), r.randrange(-20, 20), r.choice([0, 2, 4]), r.choice([0, 1, 8]), r.randrange(2)))
            else:
                ops.append("c,%d" % r.randrange(lo - 10, hi + 10))
        ops.append("c,%d" % r.randrange(lo, hi))
        lines.append("zones %s %d %d %d %s" % (kind, lo, hi, r.choice([0, 1, 4]), ";".join(ops)))
    return lines


def pow2(d):
    return d & (d - 1) == 0


def run(ctx):
    res = lib.Result()
    r = lib.rng("c17")
    lines = gen(ctx, r)
    exe = lib.build_harness("h_zones")
    impl = lib.run_lines([exe], lines)
    model = lib.run_lines([lib.driver_path(), "zones"], lines) if ctx.model_ok else [None] * len(lines)
    res.harness.append("h_zones/zones")
    res.rules.append("zones: 1..25 operations (exclude, weighted<XY|SD> insert with positive/zero/negative weights, closest) on integer grids incl. coincident end points, empty and inverted ranges, ranges outside the bounds")
    inexact = 0
    for l, i, m in zip(lines, impl, model):
        res.evaluations += 1
        res.distinct.add(l)
        w = l.split()
        lo, hi = int(w[2]), int(w[3])
        ok, why = True, ""
        if i.startswith("CRASH") or i == "fault":
            ok, why = False, "crash / out-of-bounds access in Zones"
        else:
            try:
                cs, iv = parse(i)
            except Exception:
                cs, iv, ok, why = [], [], False, "unparsable output " + i[:60]
            prev = Fraction(lo)
            for x, xm, _ in iv:
                if not (prev <= x < xm <= hi):
                    ok, why = False, "interval list not sorted/disjoint/non-empty/inside [%d,%d]: %s" % (lo, hi, i[-200:])
                    break
                prev = xm
            excluded = []
            k = 0
            for op in w[5].split(";"):
                a = op.split(",")
                if a[0] == "x":
                    x0, x1 = max(int(a[1]), lo), min(int(a[2]), hi)
                    if x0 < x1:
                        excluded.append((x0, x1))
                elif a[0] == "c" and k < len(cs):
                    p, c = cs[k]
                    k += 1
                    if c != -1:
                        for x0, x1 in excluded:
                            if x0 < p < x1:
                                ok, why = False, "closest(%s) offered %s inside the excluded interval (%d,%d)" % (a[1], p, x0, x1)
                        if not (lo <= p <= hi):
                            ok, why = False, "closest(%s) offered %s outside the bounds" % (a[1], p)
        if ok is False:
            res.failures.append({"harness": "h_zones", "mode": "zones", "line": l, "impl": i, "model": m, "why": why})
        if m is not None and i != m:
            try:
                ci, ii = parse(i)
                cm, im = parse(m)
                same = ii == im and len(ci) == len(cm) and all(
                    (a == b) or ((not pow2(b[0].denominator) or not pow2(b[1].denominator) or b[0].denominator > 2 ** 20 or abs(b[1]) > 2 ** 20)
                                 and abs(a[0] - b[0]) <= abs(b[0]) * Fraction(1, 2 ** 18) + Fraction(1, 2 ** 18))
                    for a, b in zip(ci, cm))
            except Exception:
                same = False
            if same:
                inexact += 1
            else:
                res.disagreements.append({"harness": "h_zones", "mode": "zones", "line": l, "impl": i, "model": m, "explained_by_failure": ok is False})
        res.count("ops<=8" if l.count(";") < 8 else "ops>8")
    res.samples = [{"in": lines[0], "impl": impl[0], "model": model[0]}]
    res.extra["inexact_division_cases"] = inexact
    return res.as_dict()


def replay(ctx, obj):
    return lib.replay_lines(ctx, obj, {"zones": lambda l, o: (None, "")})

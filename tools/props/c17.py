"""C17 — collision fixing: the shift collider and its interval set `Zones` (DESIGN.md §0.2, §6 C17)."""
from fractions import Fraction
import lib

GEN_MODULES = []
ASSUMPTIONS = ["interval end points and cost inputs are small integers, so every float operation of Zones except the division in test_position is exact",
               "closest results whose exact value is not a float-exact dyadic rational are compared only approximately (counted as 'inexact_division_cases')",
               "collider: octaboxes, origins, limits, margins, shifts and offsets are small integers (exact float arithmetic); the code's diagonal margin margin/ISQRT2 is irrational, so the diagonal axes, the isCol flags and the result are compared with the model only for margin 0 (axes x and y always); the oracle on the implementation's answer applies to every case",
               "not modelled: sequence-order regions (orderFlags), exclusion glyphs, KernCollider, the neighbour selection of Pass::resolveCollisions"]
TRUSTED = ["hand-written models GrVerif/Model/Zones.lean and GrVerif/Model/Collider.lean (tied by correspondence on operation sequences / arrangements)",
           "harness/h_coll.cpp overwrites the octaboxes of carrier glyphs of AwamiNastaliq-Regular.ttf and drives ShiftCollider as Pass::resolveCollisions does",
           "the python octabox oracle (exact rationals) for the collider clauses"]


def parse(out):
    cs, iv = [], []
    for tok in out.split():
        if tok.startswith("c="):
            p, c = tok[2:].split(",")
            cs.append((Fraction(p), Fraction(c)))
        elif tok.startswith("["):
            f = tok.strip("[]").split(",")
            iv.append((Fraction(f[0]), Fraction(f[1]), f[2] == "1"))
    return cs, iv


def gen(ctx, r):
    lines = []
    n = 4000 if ctx.quick() else 200000
    for _ in range(n):
        lo = r.choice([0, -50, -100, 10])
        hi = lo + r.choice([0, 1, 2, 10, 100, 200])            # (0: a movement range of no width - what initSlot hands Zones when the limit leaves no room on an axis)
        kind = r.choice(["xy", "sd"])
        ops = []
        for _ in range(r.randrange(1, 25)):
            k = r.random()
            a = r.randrange(lo - 20, hi + 20)
            b = a + r.choice([0, 1, 1, 2, 5, 10, 50, -3])
            if k < 0.4:
                ops.append("x,%d,%d" % (a, b))
            elif k < 0.8:
                ops.append("w,%s,%d,%d,%d,%d,%d,%d,%d,%d,%d" % (r.choice(["xy", "sd"]), a, b, r.choice([0, 1, 2]), r.choice([0, 1, 3]),
                                                            r.choice([0, 1, 2, 4, -1]), r.randrange(-20, 20), r.choice([0, 2, 4]), r.choice([0, 1, 8]), r.randrange(2)))
            else:
                ops.append("c,%d" % r.randrange(lo - 10, hi + 10))
        ops.append("c,%d" % (r.randrange(lo, hi) if hi > lo else lo))
        lines.append("zones %s %d %d %d %s" % (kind, lo, hi, r.choice([0, 1, 4]), ";".join(ops)))
    return lines


def pow2(d):
    return d & (d - 1) == 0


def run(ctx):
    res = lib.Result()
    r = lib.rng("c17")
    lines = gen(ctx, r)
    exe = lib.build_harness("h_zones")
    impl = lib.run_lines([exe], lines)
    model = lib.run_lines([lib.driver_path(), "zones"], lines) if ctx.model_ok else [None] * len(lines)
    res.harness.append("h_zones/zones")
    res.rules.append("zones: 1..25 operations (exclude, weighted<XY|SD> insert with positive/zero/negative weights, closest) on integer grids incl. coincident end points, empty and inverted ranges, ranges outside the bounds")
    inexact = 0
    for l, i, m in zip(lines, impl, model):
        res.evaluations += 1
        res.distinct.add(l)
        w = l.split()
        lo, hi = int(w[2]), int(w[3])
        ok, why = True, ""
        if i.startswith("CRASH") or i == "fault":
            ok, why = False, "crash / out-of-bounds access in Zones"
        else:
            try:
                cs, iv = parse(i)
            except Exception:
                cs, iv, ok, why = [], [], False, "unparsable output " + i[:60]
            prev = Fraction(lo)
            for x, xm, _ in iv:
                if lo == hi and x == xm == lo and len(iv) == 1:
                    break                       # the single point of a range of no width
                if not (prev <= x < xm <= hi):
                    ok, why = False, "interval list not sorted/disjoint/non-empty/inside [%d,%d]: %s" % (lo, hi, i[-200:])
                    break
                prev = xm
            excluded = []
            k = 0
            for op in w[5].split(";"):
                a = op.split(",")
                if a[0] == "x":
                    x0, x1 = max(int(a[1]), lo), min(int(a[2]), hi)
                    if x0 < x1:
                        excluded.append((x0, x1))
                    if lo == hi and int(a[1]) < lo < int(a[2]):
                        excluded.append((int(a[1]), int(a[2])))       # a range of no width: the point lies strictly inside what was excluded
                elif a[0] == "c" and k < len(cs):
                    p, c = cs[k]
                    k += 1
                    if c != -1:
                        for x0, x1 in excluded:
                            if x0 < p < x1:
                                ok, why = False, "closest(%s) offered %s inside the excluded interval (%d,%d)" % (a[1], p, x0, x1)
                        if not (lo <= p <= hi):
                            ok, why = False, "closest(%s) offered %s outside the bounds" % (a[1], p)
        if ok is False:
            res.failures.append({"harness": "h_zones", "mode": "zones", "line": l, "impl": i, "model": m, "why": why})
        if m is not None and i != m:
            try:
                ci, ii = parse(i)
                cm, im = parse(m)
                same = ii == im and len(ci) == len(cm) and all(
                    (a == b) or ((not pow2(b[0].denominator) or not pow2(b[1].denominator) or b[0].denominator > 2 ** 20 or abs(b[1]) > 2 ** 20)
                                 and abs(a[0] - b[0]) <= abs(b[0]) * Fraction(1, 2 ** 18) + Fraction(1, 2 ** 18))
                    for a, b in zip(ci, cm))
            except Exception:
                same = False
            if same:
                inexact += 1
            else:
                res.disagreements.append({"harness": "h_zones", "mode": "zones", "line": l, "impl": i, "model": m, "explained_by_failure": ok is False})
        res.count("ops<=8" if l.count(";") < 8 else "ops>8")
    res.samples = [{"in": lines[0], "impl": impl[0], "model": model[0]}]
    res.extra["inexact_division_cases"] = inexact
    collider(ctx, res, r)
    return res.as_dict()


# ---------------------------------------------------------------------------------------------------------------------
# the shift collider: ShiftCollider::initSlot / mergeSlot / resolve against Model/Collider.lean, and the property's two
# collider clauses evaluated on the implementation's own answer

def gen_box(r, arbitrary=False):
    xi = r.randrange(-60, 40); xa = xi + r.randrange(1, 80)
    yi = r.randrange(-60, 40); ya = yi + r.randrange(1, 80)
    if arbitrary:
        si = r.randrange(-120, 60); sa = si + r.randrange(1, 160)
        di = r.randrange(-120, 60); da = di + r.randrange(1, 160)
    else:
        smin, smax, dmin, dmax = xi + yi, xa + ya, xi - ya, xa - yi
        cs, cd = (smax - smin) // 3, (dmax - dmin) // 3
        si = smin + r.randrange(0, cs + 1); sa = smax - r.randrange(0, cs + 1)
        di = dmin + r.randrange(0, cd + 1); da = dmax - r.randrange(0, cd + 1)
    return [xi, yi, xa, ya, si, di, sa, da]


def sub_boxes(r, b, k):
    """k sub-boxes roughly tiling the box (they may stick out a little, as quantised boxes do in fonts)"""
    out = []
    for j in range(k):
        x0 = b[0] + (b[2] - b[0]) * j // k - r.randrange(0, 3); x1 = b[0] + (b[2] - b[0]) * (j + 1) // k + r.randrange(0, 3)
        y0 = b[1] + r.randrange(0, max(1, (b[3] - b[1]) // 2)); y1 = b[3] - r.randrange(0, max(1, (b[3] - b[1]) // 3))
        if x1 <= x0: x1 = x0 + 1
        if y1 <= y0: y1 = y0 + 1
        out.append([x0, y0, x1, y1, x0 + y0, x0 - y1, x1 + y1, x1 - y0])
    return out


# minimised past failures run first (left-to-right run with a non-zero offset: fixed by c92f57ed)
COLL_CORPUS = ["coll 0 5 0 0 -111,-22,111,22 0,0 105,0 12,20,83,39,40,-10,105,60 92,15;-37,-49,-20,6,-65,-35,-22,25|-15,9;-56,-41,14,36,-97,-45,31,45",
               "coll 0 0 0 0 -61,-9,61,9 -33,0 60,0 -54,-2,15,29,-27,-60,24,-13 26,-11;-56,8,-42,22,-48,-78,-21,-56|-45,3;21,-3,80,75,25,-36,119,44|-105,19;24,-21,51,-20,5,47,22,64"]


def gen_pressure(r):
    """a neighbour on the target's current place pushes it towards another one near the far side of a flat limit"""
    dirn = r.choice([0, 0, 1])
    trx = r.randrange(60, 200); try_ = r.randrange(5, 30)
    blx = -trx if dirn == 0 else -r.randrange(60, 200)
    bly = -try_
    offx = r.randrange(blx + 1, trx) if r.random() < 0.8 else 0
    offy = 0
    shx = r.randrange(blx - offx, trx - offx + 1) if r.random() < 0.5 else 0
    shy = 0
    tx, ty = offx + shx, offy + shy
    nbs = ["%d,%d;%s" % (tx + r.randrange(-20, 21), ty + r.randrange(-20, 21), ",".join(map(str, gen_box(r)))),
           "%d,%d;%s" % (r.choice([r.randrange(blx - 60, blx + abs(offx) + 20), r.randrange(trx - abs(offx) - 20, trx + 60)]), ty + r.randrange(-20, 21), ",".join(map(str, gen_box(r))))]
    if r.random() < 0.5:
        nbs.append("%d,%d;%s" % (r.randrange(blx - 60, trx + 60), ty + r.randrange(-30, 31), ",".join(map(str, gen_box(r)))))
    return "coll %d %d 0 %d %d,%d,%d,%d %d,%d %d,%d %s %s" % (dirn, r.choice([0, 0, 5]), r.choice([0, 1]), blx, bly, trx, try_, shx, shy, offx, offy,
                                                             ",".join(map(str, gen_box(r))), "|".join(nbs))


def gen_coll(r, count):
    lines = list(COLL_CORPUS)
    for _ in range(count):
        if r.random() < 0.3:
            lines.append(gen_pressure(r))
            continue
        dirn = 1 if r.random() < 0.7 else 0
        margin = r.choice([0, 0, 0, 5, 10, 20])
        mwt = r.choice([0, 1, 1, 3])
        trx, try_ = r.randrange(10, 200), r.randrange(10, 200)
        blx = -trx if dirn == 0 else -r.randrange(10, 200)       # left-to-right runs only with x-symmetric limits (the property's quantifier)
        bly = -r.randrange(10, 200)
        if r.random() < 0.5:
            offx = offy = 0
        else:
            offx, offy = r.randrange(blx, trx + 1), r.randrange(bly, try_ + 1)
        if r.random() < 0.5:
            shx = shy = 0
        else:
            shx, shy = r.randrange(blx - offx, trx - offx + 1), r.randrange(bly - offy, try_ - offy + 1)
        tb = gen_box(r, r.random() < 0.1)
        nbs = []
        used = {0: 1}
        for _ in range(r.randrange(1, 4)):
            b = gen_box(r, r.random() < 0.1)
            k = r.choice([0, 0, 0, 1, 2, 3])
            if used.get(k, 0) >= 5:
                k = 0
            used[k] = used.get(k, 0) + 1
            # mostly close to the target's current position
            tx, ty = offx + shx, offy + shy
            if r.random() < 0.8:
                sx, sy = tx + r.randrange(-90, 91), ty + r.randrange(-90, 91)
            else:
                sx, sy = r.randrange(-400, 401), r.randrange(-400, 401)
            nbs.append(";".join(["%d,%d" % (sx, sy), ",".join(map(str, b))] + [",".join(map(str, sb)) for sb in sub_boxes(r, b, k)]))
        lines.append("coll %d %d 0 %d %d,%d,%d,%d %d,%d %d,%d %s %s" % (dirn, margin, mwt, blx, bly, trx, try_, shx, shy, offx, offy, ",".join(map(str, tb)), "|".join(nbs)))
    return lines


def placed(b, x, y):
    return [(b[0] + x, b[2] + x), (b[1] + y, b[3] + y), (b[4] + x + y, b[6] + x + y), (b[5] + x - y, b[7] + x - y)]


def overlap_depth(a, b):
    """> 0 iff the open octaboxes overlap (all four projections); slanted axes count half"""
    d = None
    for k, ((ai, aa), (bi, ba)) in enumerate(zip(a, b)):
        t = min(aa, ba) - max(ai, bi)
        if k >= 2:
            t = t / 2
        d = t if d is None or t < d else d
    return d


def coll_holds(line, out):
    """the collider clauses of C17 on the implementation's answer: (L) offset + shift inside the limit rectangle,
    (R) resolved => no overlap with any neighbour within reach"""
    if out.startswith("CRASH") or out == "fault":
        return False, "crash / sanitizer fault in the collider"
    if out == "bad-op":
        return None, ""
    w = line.split()
    dirn, margin = int(w[1]), int(w[2])
    blx, bly, trx, try_ = map(int, w[5].split(","))
    shx, shy = map(int, w[6].split(","))
    offx, offy = map(int, w[7].split(","))
    tb = list(map(int, w[8].split(",")))
    res = out.rsplit("res=", 1)[1].split(",")
    try:
        rx, ry, iscol = Fraction(res[0]), Fraction(res[1]), res[2] == "1"
    except Exception:
        return False, "non-finite result " + out[-60:]
    eps = Fraction(1, 1000)
    # (L): the coordinates the fixer moved must end inside the limit; it starts inside by construction of the inputs
    ox, oy = offx + rx, offy + ry
    if not (blx - eps <= ox <= trx + eps and bly - eps <= oy <= try_ + eps) and not iscol:
        return False, "offset + shift = (%s,%s) outside the limit rectangle (%d,%d)-(%d,%d)" % (ox, oy, blx, bly, trx, try_)
    if iscol:
        return True, ""
    # the limit rectangle in the frame of the glyph's anchor (limit - offset); left-to-right runs have x-symmetric limits
    lblx, lbly, ltrx, ltry = blx - offx, bly - offy, trx - offx, try_ - offy
    tp = placed(tb, ox, oy)
    for nb in w[9].split("|"):
        parts = nb.split(";")
        sx, sy = map(int, parts[0].split(","))
        b = list(map(int, parts[1].split(",")))
        # "within reach of its limit rectangle": the target ends inside its limit (clause L), so a neighbour it overlaps there is one its
        # box can reach from inside the limit - no filter of the engine's is taken over here (the engine's own short-circuit at the top
        # of mergeSlot used to compare the neighbour with the limit of the target's *origin*, in a mixed frame: fix in /repo)
        dm = overlap_depth(tp, placed(b, sx, sy))
        subs = [list(map(int, p.split(","))) for p in parts[2:]]
        ds = [min(dm, overlap_depth(tp, placed(sb, sx, sy))) for sb in subs] if subs else [dm]
        if max(ds) > eps:
            return False, "reported resolved at shift (%s,%s) but the target still overlaps the neighbour at (%d,%d) by %s units" % (rx, ry, sx, sy, max(ds))
    return True, ""


def coll_same(line, impl, model):
    """axes 0 and 1 exactly; the diagonal axes and the result only for margin 0 (the code's diagonal margin is margin/ISQRT2);
    results approximately when the exact value is not a float-exact dyadic rational"""
    if impl == model:
        return True
    try:
        pi, pm = impl.split(" | "), model.split(" | ")
        if len(pi) != 6 or len(pm) != 6 or pi[1:3] != pm[1:3]:
            return False
        if int(line.split()[2]) != 0:
            return True           # the `col` flags and the result also depend on the diagonal axes
        if pi[0] != pm[0]:
            return False
        if pi[3:5] != pm[3:5]:
            return False
        a, b = pi[5][4:].split(","), pm[5][4:].split(",")
        if a[2] != b[2]:
            return False
        for x, y in zip(a[:2], b[:2]):
            fx, fy = Fraction(x), Fraction(y)
            if fx != fy and not ((not pow2(fy.denominator) or fy.denominator > 2 ** 20) and abs(fx - fy) <= abs(fy) * Fraction(1, 2 ** 18) + Fraction(1, 2 ** 18)):
                return False
        return True
    except Exception:
        return False


def collider(ctx, res, r):
    exe = lib.build_harness("h_coll")
    font = str(lib.REPO / "tests" / "fonts" / "AwamiNastaliq-Regular.ttf")
    lines = gen_coll(r, 6000 if ctx.quick() else 300000)
    impl = lib.run_lines([exe, font], lines, per_chunk=500)
    model = lib.run_lines([lib.driver_path(), "coll"], lines, per_chunk=500) if ctx.model_ok else [None] * len(lines)
    res.harness.append("h_coll/coll")
    res.rules.append("collider: a target octabox and 1..3 neighbour octaboxes (0..3 sub-boxes each; mostly consistent slant boxes, some arbitrary), "
                     "origins near and far, limits (right-to-left any, left-to-right x-symmetric), margins 0..20, margin weights 0..3, current shifts and offsets inside the limit; "
                     "30% 'pressure' arrangements (one neighbour on the target's place, another near the far side of a flat limit, non-zero offsets)")
    for l, i, m in zip(lines, impl, model):
        res.evaluations += 1
        res.distinct.add(l)
        ok, why = coll_holds(l, i)
        res.count("coll:" + ("crash" if i.startswith(("CRASH", "fault")) else "unresolved" if i.endswith(",1") else "resolved") + (":margin" if l.split()[2] != "0" else ""))
        if ok is False:
            res.failures.append({"harness": "h_coll", "mode": "coll", "line": l, "impl": i, "model": m, "why": why, "exe_args": [font]})
        if m is not None and not coll_same(l, i, m):
            res.disagreements.append({"harness": "h_coll", "mode": "coll", "line": l, "impl": i, "model": m, "explained_by_failure": ok is False, "exe_args": [font]})
    res.samples.append({"in": lines[0][:300], "impl": impl[0][:300], "model": (model[0] or "")[:300]})


def replay(ctx, obj):
    return lib.replay_lines(ctx, obj, {"zones": lambda l, o: (None, ""), "coll": coll_holds})

"""C01 — font loading is total and memory-safe on arbitrary table bytes (DESIGN.md §6; partial)."""
import os
import shutil
import struct
import lib
import fontsynth
import fontmut
import featgen
import passgen
import importlib
c13mod = importlib.import_module("props.c13")
import pathlib
import sfnt

GEN_MODULES = ["Lz4", "Err", "Vm", "Enums"]
ASSUMPTIONS = ["theorems: sfnt container as FileFace reads it, Silf::readClassMap and the class look-ups, the layout half of Pass::readPass, readStates, the rule map, Pass::readRanges, cmap lookups after CheckCmapSubtable*, compressed tables and LZ4 (Props/C01.lean, C13, C14) are total / in-bounds for ALL bytes",
               "the rest of the loader (Silf, Pass, Code, Glat/Gloc, Feat/Sill/name, queries, destruction) is decided on the implementation under ASan/UBSan/LSan with mutated and structurally hostile fonts - a finite exploration, not a theorem"]
TRUSTED = ["hand-written model GrVerif/Model/Loader.lean tied by correspondence", "sanitizers as the oracle for memory safety", "tools/fontmut.py, tools/fontsynth.py, tools/featgen.py"]

SHIPPED = ["grtest1gr.ttf", "small.ttf", "Padauk.ttf", "general.ttf", "MagyarLinLibertineG.ttf", "Awami_compressed_test.ttf", "charis_r_gr.ttf", "Scheherazadegr.ttf", "tiny.ttf", "Annapurnarc2.ttf"]
ALL_TAGS = ("Silf", "Glat", "Gloc", "Feat", "Sill", "cmap", "hmtx", "maxp", "head", "hhea", "name", "loca", "glyf", "Silf", "Silf", "Glat", "cmap", "name")


def sfnt_line(r):
    n = r.choice([0, 1, 2, 3, 5, 40, 41, 60])
    scaler = r.choice([0x00010000] * 6 + [0x4F54544F, 0])
    tabs, body = [], b""
    hdrlen = 12 + 16 * n
    for _ in range(n):
        tag = r.choice([0x53696C66, 0x636D6170, 0x68656164, 0x476C6174, r.randrange(1 << 32)])
        ln = r.choice([0, 1, 4, 10, 100])
        off = hdrlen + len(body)
        body += bytes(r.randrange(256) for _ in range(ln))
        k = r.random()
        if k < 0.15:
            off = r.choice([0, hdrlen + len(body), hdrlen + len(body) + 1, 0xFFFFFFFF, 0xFFFFFFF0])
        elif k < 0.3:
            ln = r.choice([ln + 1, 0xFFFFFFFF, len(body) + hdrlen, 1 << 31])
        tabs.append((tag, off, ln))
    data = struct.pack(">IHHHH", scaler, n, 0, 0, 0) + b"".join(struct.pack(">IIII", t, 0, o, l) for t, o, l in tabs) + body
    if r.random() < 0.2:
        data = data[:r.randrange(len(data) + 1)]
    tags = [t for t, _, _ in tabs][:4] + [0x53696C66, 0x12345678]
    return "sfnt %s %s" % (data.hex() or "-", " ".join("%08x" % t for t in tags))


def ranges_line(r):
    ng, nc, nr = r.randrange(1, 12), r.randrange(1, 5), r.randrange(0, 5)
    bs = b""
    for _ in range(nr):
        a = r.randrange(0, ng + 1)
        b = r.choice([a, a + 1, a + 2, ng - 1, ng, ng + 1, a - 1 if a else 0])
        bs += struct.pack(">HHH", a & 0xFFFF, b & 0xFFFF, r.randrange(0, nc + 1))
    return "ranges %d %d %d %s" % (ng, nc, nr, bs.hex() or "-")


def synth_silf_font(k):
    """the k-th synthesised base font of the Silf stage: the same bytes whatever the seed, so that a replay can make it again"""
    import random
    return fontsynth.gen_font(random.Random("c01-silf-font-%d" % k), rtl=bool(k % 2))[0]


def ask(res, hp, fp, question, n):
    """one question to h_pass about its base font -> n words, or None (recorded as a failure: a shipped / well-formed font the
    engine no longer loads, or a harness that crashes on it)"""
    out = lib.run_lines([hp, fp], [question])[0]
    w = out.split()
    if out.startswith(("CRASH", "fault", "bad-op")) or len(w) != n:
        res.failures.append({"harness": "h_pass", "mode": "loader", "line": question, "impl": out[:300], "model": None, "exe_args": [fp],
                             "why": "the base font %s is not loaded / answered by the engine any more: %s" % (pathlib.Path(fp).name, out[:120])})
        return None
    return w


def codeinfo(res, hp, fp):
    """the four limits of the code loader for the base font; refuses to go on if an instruction slot is not the 8 bytes the
    model's pool arithmetic assumes"""
    a = ask(res, hp, fp, "codeinfo", 5)
    if a is None:
        return None
    if a[4] != "8":
        res.failures.append({"harness": "h_pass", "mode": "loader", "line": "codeinfo", "impl": " ".join(a), "model": None, "exe_args": [fp],
                             "why": "sizeof(instr) is %s, the model of the program pool assumes 8" % a[4]})
        return None
    return a[:4]


def comp_holds(l, i):
    if i.startswith(("CRASH", "fault")):
        return False, "out-of-bounds access / crash in the " + l.split()[0] + " component: " + i[:120]
    return True, ""


def load_verdict(out):
    if out.startswith(("CRASH", "fault")):
        return False, "crash, sanitizer fault or no return while loading / querying / destroying the face: " + out[:160]
    if "leak=1" in out:
        return False, "memory still allocated after gr_face_destroy (or after a failed gr_make_face)"
    if "OUTSTANDING" in out or ("out=" in out and " out=0" not in out and "gets=" in out):
        return False, "table buffers still outstanding after the face is gone: " + out[-120:]
    return True, ""


def hostile_tables(r, base):
    """structurally hostile replacements for single tables of a shipped font: counts that wrap, offsets at the very end"""
    k = r.choice(["sill_wrap", "sill_short", "feat_many", "feat_off", "glat_short", "gloc_big", "name_bad"])
    if k == "sill_wrap":
        # numSettings * 8 wraps 16 bits; only one real setting follows
        n = r.choice([0x2000, 0x2001, 0x4000, 0xFFFF])
        t = struct.pack(">IHHHH", 0x00010000, 1, 0, 0, 0) + struct.pack(">IHH", 0x61626364, n, 20) + struct.pack(">IHH", 0x6B646F74, 1, 0)
        return "Sill", t, k
    if k == "sill_short":
        t = featgen.sill_table([(0x656E6700 + i, [(1, 1)] * r.randrange(0, 3)) for i in range(r.randrange(1, 5))])
        return "Sill", t[: r.randrange(len(t))], k
    if k == "feat_many":
        n = r.choice([255, 256, 300, 1000])
        return "Feat", featgen.feat_table(0x00020000, [(i + 1, 0, 256, []) for i in range(n)]), k
    if k == "feat_off":
        t = bytearray(featgen.feat_table(0x00020000, [(1, 0, 256, [(0, 257), (1, 258)]), (2, 0, 259, [(0, 260)])]))
        pos = 12 + 8
        struct.pack_into(">I", t, pos, r.choice([len(t), len(t) - 1, len(t) - 4, 0xFFFFFFFF, 0]))
        return "Feat", bytes(t), k
    if k == "glat_short":
        t = base.get("Glat", b"\0\1\0\0")
        return "Glat", t[: r.randrange(4, max(5, min(len(t), 200)))], k
    if k == "gloc_big":
        t = bytearray(base.get("Gloc", b"\0" * 12))
        if len(t) >= 8:
            struct.pack_into(">H", t, 6, r.choice([0xFFFF, 0x8000, 0]))
        return "Gloc", bytes(t), k
    t = bytearray(base.get("name", b"\0" * 6))
    if len(t) >= 6:
        struct.pack_into(">HHH", t, 0, 0, r.choice([0xFFFF, 1000, 1]), r.choice([0xFFFF, 6, len(t)]))
    return "name", bytes(t), k


def run(ctx):
    res = lib.Result()
    q = ctx.quick()
    r = lib.rng("c01")
    scratch = lib.CACHE / ("c01-%d" % os.getpid())
    scratch.mkdir(parents=True, exist_ok=True)
    try:
        lines = [sfnt_line(r) if k % 2 else ranges_line(r) for k in range(4000 if q else 200000)]
        lib.correspond(ctx, res, "h_ldr", "loader", lines, comp_holds, exe_args=[str(scratch)], per_chunk=500,
                       classify=lambda l, i: l.split()[0] + ":" + ("rejected" if i in ("noface", "badrange") else "fault" if i.startswith(("fault", "CRASH")) else "accepted"),
                       rule="loader components: random sfnt containers (0..60 directory entries, offsets/lengths at and beyond the end of the file, truncated files, wrong scaler) with 6 table requests each; Pass::readRanges with ranges at, one past and two past the glyph count, overlapping and inverted ranges")
        # the layout half of Pass::readPass on passes of shipped and synthesised fonts, intact and mutated (header numbers, array
        # lengths, code pointers, flags, sub-table base, truncation), against the Silf/Face of two base fonts (one of them with
        # collision passes allowed); the passes go on into readRanges / readRules / the code loader / readStates under ASan
        pool = passgen.pass_pool(r, lib.REPO / "tests" / "fonts", 20 if q else 200)
        hp = lib.build_harness("h_pass")
        for bf in ("Padauk.ttf", "AwamiNastaliq-Regular.ttf", "charis_r_gr.ttf"):
            bfp = str(lib.REPO / "tests" / "fonts" / bf)
            cok = {}
            for pt in (1, 2, 3, 4):
                a = ask(res, hp, bfp, "collok %d" % pt, 1)
                if a is None:
                    break
                cok[pt] = a[0]
            lims = codeinfo(res, hp, bfp) if len(cok) == 4 else None
            if lims is None:
                continue
            li = tuple(int(x) for x in lims)
            try:
                own = [x for x in passgen.silf_passes(sfnt.read_tables(pathlib.Path(bfp))["Silf"]) if len(x[1]) < 9000]
            except Exception:
                own = []                  # (a compressed Silf table)
            # first the passes that once broke something: 40000 rules with sort keys 0xFFFF (the sum of the sort keys overflowed an int)
            pl = ["pass 0 2 %s %s %s" % (cok[2], " ".join(lims), passgen.build_pass([(0, 0xFFFF, b"", b"")] * 39999 + [(0, 1, b"", bytes([25, 49]))]).hex())] if bf == "Padauk.ttf" else []
            for k in range(1200 if q else 50000):
                pt = r.choice([1, 2, 3, 4])
                if k % 3 == 0:
                    pt, sb, pb = passgen.gen_rules_pass(r, li)
                else:
                    sb, pb = r.choice(own) if own and k % 2 else r.choice(pool)
                    if k % 4:
                        sb, pb = passgen.mutate_pass(r, pb, sb)
                        if r.random() < 0.3:
                            sb, pb = passgen.mutate_pass(r, pb, sb)
                pl.append("pass %d %d %s %s %s" % (sb, pt, cok[pt], " ".join(lims), pb.hex() or "-"))
            # (line_timeout: the model's column map is a list – a range of 65 000 glyphs takes it a minute)
            lib.correspond(ctx, res, "h_pass", "loader", pl, comp_holds, exe_args=[bfp], per_chunk=200, line_timeout=900,
                           classify=lambda l, i: "pass:" + ("fault" if i.startswith(("fault", "CRASH")) else i.split()[0]),
                           rule="Pass::readPass, all of it: passes of shipped and synthesised fonts (the font's own and others'), intact and mutated, and passes built from generated rule records and code with a sort key, a pre-context, a code offset, the pre-context bounds or a rule-map entry changed, loaded with the Silf/Face of %s; the verdict (the loader's error code, or the header numbers, columns, state tables and per rule its lengths and the sizes of its two programs) must be the model's" % bf)
        # Silf::readClassMap on well-formed and mutated class maps (both offset widths), then getClassGlyph / findClassIndex on
        # the accepted ones for classes below and above the class count
        cl = []
        for _ in range(2500 if q else 120000):
            w, cb, pr = passgen.gen_classmap(r)
            cl.append("classmap %d %s %s" % (1 if w else 0, cb.hex() or "-", pr))
        lib.correspond(ctx, res, "h_pass", "loader", cl, comp_holds, exe_args=[str(lib.REPO / "tests" / "fonts" / "Padauk.ttf")], per_chunk=300,
                       classify=lambda l, i: "classmap:" + ("fault" if i.startswith(("fault", "CRASH")) else i.split()[0]),
                       rule="Silf::readClassMap: class maps with 0..4 linear and 0..3 look-up classes, 16 and 32 bit offsets, intact or with a count, an offset, a header word, the first offset or the length changed; 12 probes of both look-ups per accepted map")
        # Face::readGraphite / Silf::readGraphite: the Silf tables of small shipped fonts and of synthesised fonts, intact and mutated
        # (every named number of the sub-table header, the pass offsets, the pseudo and class counts, the number of sub-tables and
        # their offsets, the version, truncation at structure boundaries, the sub-table repeated), as the whole table of the font
        # they came from (`silftable`) and as a bare sub-table on an exact-size buffer (`silf`)
        spool = passgen.silf_pool(r, lib.REPO / "tests" / "fonts", 0, big=not q)
        for k in range(4 if q else 24):
            fp = scratch / ("silf-synth-%d.ttf" % k)
            data = synth_silf_font(k)
            fp.write_bytes(data)
            st = sfnt.read_tables(data)["Silf"]
            an = passgen.silf_anatomy(st)
            if an:
                spool.append((str(fp), st, an))
        for fp, st, an in spool:
            a = ask(res, hp, fp, "faceinfo", 4)
            if a is None:
                continue
            ng, na, hb, nf = a
            n = (40 if q else 400) if len(st) > 40000 else (250 if q else 6000)
            hl2 = []
            for k in range(n):
                t = st if k == 0 else passgen.mutate_silf(r, st, an)
                if k % 2 == 0:
                    hl2.append("silftable %s %s %s %s %s" % (ng, na, hb, nf, t.hex() or "-"))
                else:
                    off, end = an["subs"][0]
                    sub = t[off:end] if r.random() < 0.8 else t[off: off + r.randrange(0, 80)]
                    v = int.from_bytes(t[0:4], "big") if len(t) >= 4 else 0x00020000
                    hl2.append("silf %d %s %s %s %s %s" % (v, ng, na, hb, nf, sub.hex() or "-"))
            lib.correspond(ctx, res, "h_pass", "loader", hl2, comp_holds, exe_args=[fp], per_chunk=100, line_timeout=900,
                           classify=lambda l, i: l.split()[0] + ":" + ("fault" if i.startswith(("fault", "CRASH")) else " ".join(x for x in i.split()[:2] if not x[:1].isdigit())),
                           rule="Face::readGraphite / Silf::readGraphite: the Silf table of %s (%d bytes), intact and mutated; the verdict (the loader's error code from whichever part of the table, sub-table, class map, pass, rule record or bytecode gave it, or the numbers of the accepted sub-tables) must be the model's" % (pathlib.Path(fp).name, len(st)))
        # the code loader: Machine::Code's loading constructor on the constraint and action code of shipped fonts (intact and with a
        # byte changed) and on generated programs that mostly pass its tests, with boundary operands, truncations and unknown opcodes
        for bf in ("Padauk.ttf", "charis_r_gr.ttf", "general.ttf"):
            bfp = str(lib.REPO / "tests" / "fonts" / bf)
            lims = codeinfo(res, hp, bfp)
            if lims is None:
                continue
            li = tuple(int(x) for x in lims)
            real = []
            for sb, pb in passgen.silf_passes(sfnt.read_tables(pathlib.Path(bfp))["Silf"]):
                real += passgen.pass_codes(pb)
            cl2 = []
            for k in range(1200 if q else 60000):
                if real and k % 3 == 0:
                    c, pre, rl, code = r.choice(real)
                    pt = r.choice([2, 3])
                    if k % 9 == 0:
                        code = bytearray(code)
                        i = r.randrange(len(code))
                        code[i] = r.choice([code[i] ^ (1 << r.randrange(8)), r.randrange(256), 0, 255])
                        code = bytes(code)
                else:
                    c, pt, pre, rl, code = passgen.gen_code(r, li)
                cl2.append("code %d %d %d %d %s %s" % (1 if c else 0, pt, pre, rl, " ".join(lims), code.hex()))
            lib.correspond(ctx, res, "h_pass", "loader", cl2, comp_holds, exe_args=[bfp], per_chunk=300,
                           classify=lambda l, i: "code:%s:%s" % ("constraint" if l.split()[1] == "1" else "action", "fault" if i.startswith(("fault", "CRASH")) else i.split()[0]),
                           rule="Machine::Code: %d programs of %s (intact / one byte changed) and generated programs against its limits %s; status, instruction list incl. TEMP_COPYs, data, max_ref and flags must be the model's" % (len(real), bf, "/".join(lims)))
        # glyph attributes: GlyphCache (on demand and preloading) on the Gloc/Glat of shipped fonts (version 1 and 3), intact and mutated,
        # and on generated tables (versions 1-3, short and long offsets, irregular run-length entries) for two small base fonts
        for bf in ("Padauk.ttf", "general.ttf", "Awami_test.ttf", "small.ttf", "grtest1gr.ttf"):
            bfp = str(lib.REPO / "tests" / "fonts" / bf)
            try:
                tb = sfnt.read_tables(pathlib.Path(bfp))
                ngg = struct.unpack(">H", tb["maxp"][4:6])[0]
            except Exception:
                continue
            big = len(tb["Glat"]) > 40000
            gl = []
            for k in range((30 if q else 600) if big else (250 if q else 12000)):
                if bf in ("small.ttf", "grtest1gr.ttf"):
                    gloc, glat = passgen.build_glyph_tables(r, max(1, ngg + r.choice([0, 0, 1, 5, -1])), r.choice([0x00010000, 0x00020000, 0x00030000]),
                                                            r.random() < 0.5, r.random() < 0.2, hostile=r.choice([0, 0.1, 0.5]))
                    if k % 3 == 0:
                        gloc, glat = passgen.mutate_glyph_tables(r, gloc, glat)
                else:
                    gloc, glat = (tb["Gloc"], tb["Glat"]) if k == 0 else passgen.mutate_glyph_tables(r, tb["Gloc"], tb["Glat"])
                w = 4 if len(gloc) > 5 and gloc[5] & 1 else 2
                nga = max(0, (len(gloc) - 8) // w - 1)                 # (roughly) the attributed glyphs: ask about the last ones
                gids = [0, 1, ngg - 1, ngg, nga - 1, max(0, nga - 2), r.randrange(0, max(ngg, nga) + 2)]
                keys = [0, 1, 2, 3, 47, 48, 49, 95, 96] + [r.randrange(0, 400) for _ in range(6)] + [65535]
                gl.append("glyphs %d 48 %d %s %s %s %s" % (r.choice([0, 0, 2]), ngg, gloc.hex() or "-", glat.hex() or "-", ",".join(map(str, gids)), ",".join(map(str, keys))))
            lib.correspond(ctx, res, "h_pass", "loader", gl, comp_holds, exe_args=[bfp], per_chunk=60, line_timeout=120,
                           classify=lambda l, i: "glyphs:%s:%s" % ("preload" if l.split()[1] == "2" else "lazy", "fault" if i.startswith(("fault", "CRASH")) else i.split()[0]),
                           rule="GlyphCache / Loader / sparse on the glyph count of %s: Gloc and Glat of the font or generated ones, intact and mutated; per queried glyph the chunks, values and 16 look-ups of its attributes and its sub-box count must be the model's (the engine's chunk width, 48 keys, is checked by the harness)" % bf)
        # the loader as a whole at the public API: gr_make_face_with_ops on small shipped fonts with their Silf, Gloc/Glat, Feat or Sill
        # table mutated (all five served from exact-size buffers), against the composed model loadFace: NULL or the face's numbers
        for bf in ("general.ttf", "small.ttf", "grtest1gr.ttf", "PigLatinBenchmark_v3.ttf", "Padauk.ttf"):
            bfp = str(lib.REPO / "tests" / "fonts" / bf)
            try:
                tb = sfnt.read_tables(pathlib.Path(bfp))
                ngg = struct.unpack(">H", tb["maxp"][4:6])[0]
            except Exception:
                continue
            an = passgen.silf_anatomy(tb["Silf"])
            big = len(tb["Silf"]) > 40000
            fl = []
            for k in range((40 if q else 600) if big else (150 if q else 6000)):
                tabs = {x: tb.get(x, b"") for x in ("Silf", "Gloc", "Glat", "Feat", "Sill")}
                if k:
                    which = r.choice(["Silf", "Silf", "Gloc", "Feat", "Sill", "none"])
                    if which == "Silf" and an:
                        tabs["Silf"] = passgen.mutate_silf(r, tabs["Silf"], an)
                    elif which == "Gloc":
                        tabs["Gloc"], tabs["Glat"] = passgen.mutate_glyph_tables(r, tabs["Gloc"], tabs["Glat"])
                    elif which in ("Feat", "Sill") and tabs[which]:
                        bb = bytearray(tabs[which])
                        m = r.random()
                        if m < 0.3:
                            bb = bb[: r.randrange(0, len(bb) + 1)]
                        elif m < 0.4:
                            bb = bytearray()
                        else:
                            for _ in range(r.randrange(1, 4)):
                                i = r.randrange(len(bb))
                                bb[i] = r.choice([0, 1, 0xFF, bb[i] ^ (1 << r.randrange(8)), r.randrange(256)])
                        tabs[which] = bytes(bb)
                fl.append("face %d 48 %d %s" % (r.choice([0, 0, 2, 6]), ngg, " ".join((tabs[x].hex() or "-") for x in ("Silf", "Gloc", "Glat", "Feat", "Sill"))))
            lib.correspond(ctx, res, "h_pass", "loader", fl, comp_holds, exe_args=[bfp], per_chunk=60, line_timeout=900,
                           classify=lambda l, i: "face:" + ("fault" if i.startswith(("fault", "CRASH")) else i.split()[0]),
                           rule="gr_make_face_with_ops on %s with one of its five Graphite tables mutated (exact-size buffers), options 0/2/6: NULL or the numbers of the face (glyphs, features, languages, passes per sub-table) must be what the composed model loadFace says" % bf)
        # gr_make_face_with_ops over eleven tables: as above, with head hhea hmtx maxp glyf loca served from the line too and one of them
        # changed (a header number, a loca offset at the end of glyf, a count, cut short, absent) – against loadFaceAll
        for bf in ("general.ttf", "small.ttf", "grtest1gr.ttf", "Padauk.ttf"):
            bfp = str(lib.REPO / "tests" / "fonts" / bf)
            try:
                tb = sfnt.read_tables(pathlib.Path(bfp))
            except Exception:
                continue
            an = passgen.silf_anatomy(tb["Silf"])
            big = len(tb["Silf"]) > 40000
            order = ("head", "hhea", "hmtx", "maxp", "glyf", "loca", "cmap", "Silf", "Gloc", "Glat", "Feat", "Sill")
            fl = []
            for k in range((40 if q else 600) if big else (150 if q else 6000)):
                tabs = {x: tb.get(x, b"") for x in order}
                if k:
                    cm = r.random()
                    if cm < 0.12:
                        # a synthesised cmap (format 4 with idRangeOffset arrays, with or without format 12), as it is or with the
                        # first format 4 subtable's length made odd / one short, its segment count or last end code changed
                        wf = c13mod.gen_wf(r, consistent=(k % 2 == 0))[0]
                        tabs["cmap"] = wf if cm < 0.03 else passgen.mutate_cmap_subtable(r, wf)
                    elif r.random() < 0.75:
                        tabs.update(passgen.mutate_gfx_tables(r, {x: tabs[x] for x in order[:7]}))
                    else:
                        which = r.choice(["Silf", "Gloc"])
                        if which == "Silf" and an:
                            tabs["Silf"] = passgen.mutate_silf(r, tabs["Silf"], an)
                        else:
                            tabs["Gloc"], tabs["Glat"] = passgen.mutate_glyph_tables(r, tabs["Gloc"], tabs["Glat"])
                fl.append("faceall %d 48 %s" % (r.choice([0, 0, 2, 6]), " ".join((tabs[x].hex() or "-") for x in order)))
            lib.correspond(ctx, res, "h_pass", "loader", fl, comp_holds, exe_args=[bfp], per_chunk=60, line_timeout=900,
                           classify=lambda l, i: "faceall:" + ("fault" if i.startswith(("fault", "CRASH")) else i.split()[0]),
                           rule="gr_make_face_with_ops on %s with head, hhea, hmtx, maxp, glyf, loca, cmap and the five Graphite tables served from exact-size buffers, one of them mutated, options 0/2/6: NULL or the numbers of the face must be what loadFaceCmap says" % bf)
        # the name table: NameTable's constructor and getName on generated tables (records of several platforms, languages and name ids,
        # strings that end in a high surrogate) with a count, the string offset, a record or the length changed
        nm = []
        for _ in range(2500 if q else 100000):
            pl, en, tab, qs = passgen.gen_name_table(r)
            nm.append("name %d %d %s %s" % (pl, en, tab.hex() or "-", ",".join("%d.%d" % x for x in qs)))
        lib.correspond(ctx, res, "h_pass", "loader", nm, comp_holds, exe_args=[str(lib.REPO / "tests" / "fonts" / "small.ttf")], per_chunk=400,
                       classify=lambda l, i: "name:" + ("fault" if i.startswith(("fault", "CRASH")) else i.split()[0]),
                       rule="NameTable: generated name tables (Mac and Windows records, 0..10 of them, a few languages and name ids), intact or with count / string offset / a record's offset or length / the length of the table changed; the record range of the platform, the data length and, per query, the language found and the code units handed back must be the model's")
        # the graphics half of read_glyph: TtfUtil's loca / glyf / hmtx look-ups on generated tables (exact-size buffers)
        gx = []
        for _ in range(2500 if q else 100000):
            f, nl, loca, glyf, hmtx, gids = passgen.gen_gfx(r)
            gx.append("gfx %d %d %s %s %s %s" % (f, nl, loca.hex(), glyf.hex() or "-", hmtx.hex(), ",".join(map(str, gids))))
        lib.correspond(ctx, res, "h_pass", "loader", gx, comp_holds, exe_args=[str(lib.REPO / "tests" / "fonts" / "small.ttf")], per_chunk=400,
                       classify=lambda l, i: "gfx:" + ("fault" if i.startswith(("fault", "CRASH")) else "F" if " F" in " " + i else "ok"),
                       rule="TtfUtil::LocaLookup / GlyfLookup / GlyfBox / HorMetrics as Loader::read_glyph uses them: 1..8 glyphs, short and long loca, empty glyphs, inverted boxes, offsets at and beyond the end of glyf, truncated loca / hmtx, 0..n+1 long metrics; per glyph the bounding box and advance must be the model's")
        exe = lib.build_harness("h_seg")
        fonts, hl, meta = [], [], []

        def add_font(data):
            p = scratch / ("f%d.ttf" % len(fonts))
            p.write_bytes(data)
            fonts.append(str(p))
            return len(fonts) - 1
        base = [(f, (lib.REPO / "tests" / "fonts" / f).read_bytes()) for f in SHIPPED if (lib.REPO / "tests" / "fonts" / f).exists()]
        base = [(f, d) for f, d in base if len(d) < 600000 or not q]
        # hostile class maps (the numbers readClassMap computes with; the first two are the minimised witnesses of the repaired
        # 16-bit wrap of the offsets-array size)
        for k in range(30 if q else 600):
            fi = add_font(fontsynth.gen_classmap_font(r, "wrap" if k == 0 else "wrap1" if k == 1 else None))
            hl.append("F0=%d,%d,%s;X0;T0;L0" % (fi, r.choice([0, 6]), r.choice("fc")))
            meta.append(("classmap", None))
        for _ in range(500 if q else 30000):
            name, data = r.choice(base)
            k = r.random()
            if k < 0.75:
                mut, what = fontmut.mutate(r, data, tags=ALL_TAGS, maxbytes=r.choice([1, 1, 2, 6]))
            else:
                t = fontmut.tables(data)
                tag, new, what = hostile_tables(r, {x: data[v[0]:v[0] + v[1]] for x, v in t.items()})
                mut = fontmut.replace_table(data, tag, new)
            fi = add_font(mut)
            opts = r.choice([0, 1, 2, 4, 6, 7, 16, 31])
            src = r.choice(["f", "c"])
            hx = "".join("%08x" % ord(c) for c in r.choice(["abc", "ကခ", "ab fi", "اب"]))
            hl.append("F0=%d,%d,%s;Q0;S0=0,-1,-1,0,32,0,-1,%s;D0;d0;X0;T0;L0" % (fi, opts, src, hx))
            meta.append((name, what))
        # fonts the loader must refuse: ranges ending one past the glyph count, operands one past their tables
        for _ in range(60 if q else 2000):
            if r.random() < 0.5:
                data, desc = fontsynth.gen_boundary_font(r)
                what = "boundary:" + desc["kind"]
            else:
                d0, desc = fontsynth.gen_font(r)
                # patch the last glyph of the first range of the first pass to numGlyphs (the cols table follows the 40-byte pass header)
                t = fontmut.tables(d0)
                so = t["Silf"][0]
                silf = bytearray(d0[so:so + t["Silf"][1]])
                sub = struct.unpack(">I", silf[12:16])[0]
                npass = silf[sub + 14]
                poff = struct.unpack(">I", silf[sub + 36: sub + 40])[0] if True else 0
                pbase = sub + poff
                if pbase + 46 <= len(silf):
                    struct.pack_into(">H", silf, pbase + 42, fontsynth.NG)
                data = d0[:so] + bytes(silf) + d0[so + len(silf):]
                what = "boundary:range-last=numGlyphs"
            fi = add_font(data)
            hl.append("F0=%d,%d,%s;Q0;S0=0,-1,-1,0,32,0,-1,000000610000006200000063;D0;d0;X0;T0;L0" % (fi, r.choice([0, 6]), r.choice(["f", "c"])))
            meta.append(("synth", what))
        impl = lib.run_lines([exe] + fonts, hl, per_chunk=40, env=lib.LEAK_ENV)
        res.harness.append("h_seg load histories (implementation only)")
        res.rules.append("load: %d shipped fonts (incl. the LZ4-compressed one) with 1..6 mutated bytes in any table or the directory, truncation, or a structurally hostile Sill/Feat/Glat/Gloc/name table; synthesised fonts the loader must refuse; x face options {0,1,2,4,6,7,16,31} x {file, callbacks}; every gr_face_/gr_fref_/gr_featureval_ query, one segment, destroy, table traffic balance, leak check" % len(base))
        for l, o, (name, what) in zip(hl, impl, meta):
            res.evaluations += 1
            res.distinct.add(l)
            ok, why = load_verdict(o)
            res.count("load:%s:%s" % ("synth" if name == "synth" else "shipped", "FAIL" if not ok else "refused" if o.startswith("noface") else "loaded"))
            if not ok:
                fi = int(l.split("=")[1].split(",")[0])
                sz = os.path.getsize(fonts[fi])
                res.failures.append({"harness": "h_seg", "mode": "load", "line": l, "impl": o[:500], "model": None, "why": why, "what": "%s %s" % (name, what),
                                     "font_hex": open(fonts[fi], "rb").read().hex() if sz < 300000 else None, "font_from": name})
        res.samples.append({"in": hl[0][:200], "impl": impl[0][:200], "model": "(no model at this level)"})
    finally:
        shutil.rmtree(scratch, ignore_errors=True)
    return res.as_dict()


def replay(ctx, obj):
    if obj.get("mode") == "load" and obj.get("font_hex"):
        exe = lib.build_harness("h_seg")
        tmp = lib.CACHE / ("replay-%d" % os.getpid())
        tmp.mkdir(parents=True, exist_ok=True)
        try:
            p = tmp / "f.ttf"
            p.write_bytes(bytes.fromhex(obj["font_hex"]))
            ops = obj["line"].split(";")
            ops[0] = "F0=0," + ops[0].split(",", 1)[1]
            out = lib.run_lines([exe, str(p)], [";".join(ops)])[0]
            ok, why = load_verdict(out)
            print("input : %s (%s)\nimpl  : %s\nproperty predicate on impl output: %s %s" % (";".join(ops)[:300], obj.get("what"), out[:600], ok, why))
            return not ok
        finally:
            shutil.rmtree(tmp, ignore_errors=True)
    if obj.get("mode") == "loader" or "line" in obj or "first" in obj:
        scratch = lib.CACHE / ("replay-%d" % os.getpid())
        scratch.mkdir(parents=True, exist_ok=True)
        try:
            import re
            items = [obj] if "line" in obj else obj.get("first", [])
            for it in items:
                if it.get("harness") != "h_pass":        # (h_pass keeps the base font it was run with)
                    it["exe_args"] = [str(scratch)]
                else:
                    mm = re.search(r"silf-synth-(\d+)\.ttf$", (it.get("exe_args") or [""])[0])
                    if mm:                                # … unless that was a synthesised one: make it again
                        fp = scratch / ("silf-synth-%s.ttf" % mm.group(1))
                        fp.write_bytes(synth_silf_font(int(mm.group(1))))
                        it["exe_args"] = [str(fp)]
            return lib.replay_lines(ctx, obj, {"loader": comp_holds})
        finally:
            shutil.rmtree(scratch, ignore_errors=True)
    print(str(obj)[:2000])
    return False

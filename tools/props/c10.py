"""C10 — face options change resource behaviour, never results (DESIGN.md §6; partial)."""
import os
import shutil
import lib
import fontsynth
from props import apihist

GEN_MODULES = []
ASSUMPTIONS = ["theorems: preloaded glyph cache = lazy glyph cache after any history on fonts whose glyphs are all readable; preload fails exactly when some glyph is unreadable (Props/C10.lean); cmap cache vs direct lookup is C13",
               "the property as a whole is decided on the implementation: all option values x both table sources must give identical face information and identical segments"]
TRUSTED = ["hand-written Model/Borrow.lean (glyph cache)"]

OPTS = [0, 1, 2, 3, 4, 5, 6, 7]


def run(ctx):
    res = lib.Result()
    q = ctx.quick()
    r = lib.rng("c10")
    exe = lib.build_harness("h_seg")
    tmp = lib.CACHE / ("c10-%d" % os.getpid())
    tmp.mkdir(parents=True, exist_ok=True)
    try:
        fonts = apihist.font_paths()
        cases = []     # (font index, text, dir)
        for fi, (name, fdir, texts) in enumerate(apihist.FONTS):
            if q and name.startswith("Awami"):
                texts = texts[:1]
            for t in texts + ["", "zzz\U00010000"]:
                for d in ([fdir] if q else [0, 1, 3]):
                    cases.append((fi, t, d))
        for _ in range(25 if q else 600):
            data, desc = fontsynth.gen_font(r)
            p = tmp / ("s%d.ttf" % len(fonts))
            p.write_bytes(data)
            fonts.append(str(p))
            for _ in range(2):
                cases.append((len(fonts) - 1, "".join(chr(c) for c in fontsynth.gen_text(r)), r.randrange(2)))
        lines, key = [], []
        for ci, (fi, t, d) in enumerate(cases):
            for o in OPTS:
                for src in ("f", "c"):
                    lines.append("F0=%d,%d,%s;N0=0,16;Q0;%s;D0;%s;D1" % (fi, o, src, apihist.seg_op(0, 0, -1, -1, t, d), apihist.seg_op(1, 0, 0, -1, t, d)))
                    key.append((ci, o, src))
        impl = lib.run_lines([exe] + fonts, lines, per_chunk=32)
        res.harness.append("h_seg option matrix (implementation only)")
        res.rules.append("matrix: %d shipped + synthesised fonts x texts x directions, each under all 8 option values x {file, callbacks}: face information (glyph count, features with values and labels, languages, character support) and two segments (design units and 16 ppm) must be identical across the 16 variants" % len(fonts))
        ref = {}
        for l, o, (ci, opt, src) in zip(lines, impl, key):
            res.evaluations += 1
            res.distinct.add(l)
            if o.startswith(("CRASH", "fault")):
                res.failures.append({"harness": "h_seg", "mode": "matrix", "line": l, "impl": o[:300], "model": None, "why": "crash / sanitizer fault", "exe_args": []})
                continue
            if ci not in ref:
                ref[ci] = (o, l)
                res.count("matrix:reference")
                continue
            same = o == ref[ci][0]
            res.count("matrix:" + ("same" if same else "DIFFERENT"))
            if not same:
                a = ref[ci][0]
                k = next((i for i in range(min(len(a), len(o))) if a[i] != o[i]), 0)
                fi = cases[ci][0]
                res.failures.append({"harness": "h_seg", "mode": "matrix", "line": l, "ref_line": ref[ci][1], "impl": o[max(0, k - 60):k + 120], "model": a[max(0, k - 60):k + 120],
                                     "why": "options %d/%s give a different result than options 0/file (first difference at column %d)" % (opt, src, k),
                                     "font_hex": open(fonts[fi], "rb").read().hex() if fi >= len(apihist.FONTS) else None, "font": fonts[fi] if fi < len(apihist.FONTS) else None})
        res.samples.append({"in": lines[0][:300], "impl": impl[0][:200], "model": "(no model at this level)"})
    finally:
        shutil.rmtree(tmp, ignore_errors=True)
    glyph_boxes(ctx, res, q)
    return res.as_dict()


def glyph_boxes(ctx, res, q):
    """gr_face_preloadGlyphs at the level of GlyphCache: generated well-formed Gloc/Glat tables (versions 1-3; version 3 with bounding
    octaboxes whose glyphs have no, some or many sub-boxes) given to GlyphCache with and without the option; every glyph, its attributes
    and its box must come out the same (glyphCache_preload_eq_lazy), and both must be the model's"""
    import struct
    import pathlib
    import passgen
    import sfnt
    r = lib.rng("c10boxes")
    for bf in ("small.ttf", "grtest1gr.ttf"):
        bfp = str(lib.REPO / "tests" / "fonts" / bf)
        if not pathlib.Path(bfp).exists():
            continue
        ngg = struct.unpack(">H", sfnt.read_tables(pathlib.Path(bfp))["maxp"][4:6])[0]
        tails = []
        for k in range(60 if q else 1500):
            ver = r.choice([0x00010000, 0x00020000, 0x00030000, 0x00030000, 0x00030000])
            gloc, glat = passgen.build_glyph_tables(r, ngg, ver, r.random() < 0.4, False, hostile=0.0)
            if ver == 0x00030000 and k % 3 == 0:
                # bounding octaboxes but not a single sub-box in the font: every bitmap 0 (and its sub-box bytes gone)
                gloc, glat = passgen.build_glyph_tables(r, ngg, ver, False, False, hostile=0.0, no_subboxes=True)
            gids = ",".join(map(str, range(ngg)))
            keys = ",".join(map(str, [0, 1, 2, 3, 47, 48, 49] + [r.randrange(0, 200) for _ in range(4)]))
            tails.append("48 %d %s %s %s %s" % (ngg, gloc.hex(), glat.hex(), gids, keys))
        lines = ["glyphs 0 " + t for t in tails] + ["glyphs 2 " + t for t in tails]
        impl, model = lib.correspond(ctx, res, "h_pass", "loader", lines, lambda l, i: ((False, "crash / out-of-bounds access in GlyphCache") if i.startswith(("CRASH", "fault")) else (True, "")),
                                     exe_args=[bfp], per_chunk=40, line_timeout=120,
                                     classify=lambda l, i: "boxes:%s:%s" % ("preload" if l.split()[1] == "2" else "lazy", i.split()[0] if i else "empty"),
                                     rule="GlyphCache with and without gr_face_preloadGlyphs on generated well-formed Gloc/Glat of %s (versions 1-3, octaboxes with 0..16 sub-boxes per glyph, fonts without any sub-box): every glyph's attributes and box identical, and both the model's" % bf)
        n = len(tails)
        for k in range(n):
            a, b = impl[k], impl[k + n]
            res.evaluations += 1
            if not (a.startswith("ok") and b.startswith("ok")):
                res.count("boxes:pair:" + ("not-loaded" if not a.startswith(("CRASH", "fault")) and not b.startswith(("CRASH", "fault")) else "fault"))
                continue
            res.count("boxes:pair:" + ("same" if a == b else "DIFFERENT"))
            if a != b:
                j = next((i for i in range(min(len(a), len(b))) if a[i] != b[i]), 0)
                res.failures.append({"harness": "h_pass", "mode": "loader", "line": lines[k + n], "ref_line": lines[k], "impl": b[max(0, j - 60):j + 100], "model": a[max(0, j - 60):j + 100], "exe_args": [bfp], "tag": "boxes",
                                     "why": "a glyph cache made with gr_face_preloadGlyphs hands out a different glyph or box than one that loads on demand (first difference at column %d): the option changes a result" % j})


def replay(ctx, obj):
    if obj.get("tag") == "boxes":
        hp = lib.build_harness("h_pass")
        a, b = lib.run_lines([hp] + obj.get("exe_args", []), [obj["ref_line"], obj["line"]])
        print("on demand: %s\npreloaded: %s\nsame: %s" % (a[:300], b[:300], a == b))
        return a != b
    exe = lib.build_harness("h_seg")
    tmp = lib.CACHE / ("replay-%d" % os.getpid())
    tmp.mkdir(parents=True, exist_ok=True)
    try:
        if obj.get("font_hex"):
            p = tmp / "f.ttf"
            p.write_bytes(bytes.fromhex(obj["font_hex"]))
            font = str(p)
        else:
            font = obj["font"]

        def norm(l):
            ops = l.split(";")
            ops[0] = "F0=0," + ops[0].split(",", 1)[1]
            return ";".join(ops)
        a, b = lib.run_lines([exe, font], [norm(obj["ref_line"]), norm(obj["line"])])
        print("reference: %s\nvariant  : %s\nsame: %s" % (a[:300], b[:300], a == b))
        return a != b
    finally:
        shutil.rmtree(tmp, ignore_errors=True)

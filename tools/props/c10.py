"""C10 — face options change resource behaviour, never results (DESIGN.md §6; partial)."""
import os
import shutil
import lib
import fontsynth
from props import apihist

GEN_MODULES = []
ASSUMPTIONS = ["theorems: preloaded glyph cache = lazy glyph cache after any history on fonts whose glyphs are all readable; preload fails exactly when some glyph is unreadable (Props/C10.lean); cmap cache vs direct lookup is C13",
               "the property as a whole is decided on the implementation: all option values x both table sources must give identical face information and identical segments"]
TRUSTED = ["hand-written Model/Borrow.lean (glyph cache)"]

OPTS = [0, 1, 2, 3, 4, 5, 6, 7]


def run(ctx):
    res = lib.Result()
    q = ctx.quick()
    r = lib.rng("c10")
    exe = lib.build_harness("h_seg")
    tmp = lib.CACHE / ("c10-%d" % os.getpid())
    tmp.mkdir(parents=True, exist_ok=True)
    try:
        fonts = apihist.font_paths()
        cases = []     # (font index, text, dir)
        for fi, (name, fdir, texts) in enumerate(apihist.FONTS):
            if q and name.startswith("Awami"):
                texts = texts[:1]
            for t in texts + ["", "zzz\U00010000"]:
                for d in ([fdir] if q else [0, 1, 3]):
                    cases.append((fi, t, d))
        for _ in range(25 if q else 600):
            data, desc = fontsynth.gen_font(r)
            p = tmp / ("s%d.ttf" % len(fonts))
            p.write_bytes(data)
            fonts.append(str(p))
            for _ in range(2):
                cases.append((len(fonts) - 1, "".join(chr(c) for c in fontsynth.gen_text(r)), r.randrange(2)))
        lines, key = [], []
        for ci, (fi, t, d) in enumerate(cases):
            for o in OPTS:
                for src in ("f", "c"):
                    lines.append("F0=%d,%d,%s;N0=0,16;Q0;%s;D0;%s;D1" % (fi, o, src, apihist.seg_op(0, 0, -1, -1, t, d), apihist.seg_op(1, 0, 0, -1, t, d)))
                    key.append((ci, o, src))
        impl = lib.run_lines([exe] + fonts, lines, per_chunk=32)
        res.harness.append("h_seg option matrix (implementation only)")
        res.rules.append("matrix: %d shipped + synthesised fonts x texts x directions, each under all 8 option values x {file, callbacks}: face information (glyph count, features with values and labels, languages, character support) and two segments (design units and 16 ppm) must be identical across the 16 variants" % len(fonts))
        ref = {}
        for l, o, (ci, opt, src) in zip(lines, impl, key):
            res.evaluations += 1
            res.distinct.add(l)
            if o.startswith(("CRASH", "fault")):
                res.failures.append({"harness": "h_seg", "mode": "matrix", "line": l, "impl": o[:300], "model": None, "why": "crash / sanitizer fault", "exe_args": []})
                continue
            if ci not in ref:
                ref[ci] = (o, l)
                res.count("matrix:reference")
                continue
            same = o == ref[ci][0]
            res.count("matrix:" + ("same" if same else "DIFFERENT"))
            if not same:
                a = ref[ci][0]
                k = next((i for i in range(min(len(a), len(o))) if a[i] != o[i]), 0)
                fi = cases[ci][0]
                res.failures.append({"harness": "h_seg", "mode": "matrix", "line": l, "ref_line": ref[ci][1], "impl": o[max(0, k - 60):k + 120], "model": a[max(0, k - 60):k + 120],
                                     "why": "options %d/%s give a different result than options 0/file (first difference at column %d)" % (opt, src, k),
                                     "font_hex": open(fonts[fi], "rb").read().hex() if fi >= len(apihist.FONTS) else None, "font": fonts[fi] if fi < len(apihist.FONTS) else None})
        res.samples.append({"in": lines[0][:300], "impl": impl[0][:200], "model": "(no model at this level)"})
    finally:
        shutil.rmtree(tmp, ignore_errors=True)
    return res.as_dict()


def replay(ctx, obj):
    exe = lib.build_harness("h_seg")
    tmp = lib.CACHE / ("replay-%d" % os.getpid())
    tmp.mkdir(parents=True, exist_ok=True)
    try:
        if obj.get("font_hex"):
            p = tmp / "f.ttf"
            p.write_bytes(bytes.fromhex(obj["font_hex"]))
            font = str(p)
        else:
            font = obj["font"]

        def norm(l):
            ops = l.split(";")
            ops[0] = "F0=0," + ops[0].split(",", 1)[1]
            return ";".join(ops)
        a, b = lib.run_lines([exe, font], [norm(obj["ref_line"]), norm(obj["line"])])
        print("reference: %s\nvariant  : %s\nsame: %s" % (a[:300], b[:300], a == b))
        return a != b
    finally:
        shutil.rmtree(tmp, ignore_errors=True)

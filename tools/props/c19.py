"""C19 — line breaking and justification keep every line a well-formed chain (DESIGN.md §6; partial)."""
import re
import lib

GEN_MODULES = []
ASSUMPTIONS = ["theorems: cutting splits the stream into two well-formed chains; the line-end sentinel round trip restores every link (Props/C19.lean)",
               "Segment::justify as a whole (arithmetic, justification passes, positionSlots, reverseSlots) is not modelled: its clauses are decided on the implementation by API histories",
               "known finding D-10b: justify with a requested direction opposite to the font's on a line-broken segment relinks slots across lines"]
TRUSTED = ["hand-written model GrVerif/Model/Lines.lean (tied by correspondence on cut / sentinel operation sequences)"]

FONTS = [("Padauk.ttf", 0, "ကောင်းသော မြန်မာ စာ"),
         ("Scheherazadegr.ttf", 1, "السلام عليكم ورحمة الله"),
         ("charis_r_gr.ttf", 0, "hello world office affinity"),
         ("AwamiNastaliq-Regular.ttf", 1, "یہ ایک جملہ ہے"),
         ("Annapurnarc2.ttf", 0, "नमस्ते दुनिया क्षि"),
         ("MagyarLinLibertineG.ttf", 0, "fi fl ffi office")]


def expected_lines(n, ops):
    """independent computation of the state after cuts and completed sentinel round trips"""
    nxt = {i: (i + 1 if i + 1 < n else -1) for i in range(n)}
    prv = {i: i - 1 for i in range(n)}
    for op in ops:
        if op[0] == "b":
            p = int(op[1:])
            q = prv[p]
            if q < 0:
                return None
            nxt[q] = -1
            prv[p] = -1
    return "first=0 last=%d " % (n - 1) + " ".join("%d:%d,%d" % (i, nxt[i], prv[i]) for i in range(n))


def lines_gen(r, n):
    out = []
    for _ in range(n):
        ns = r.randrange(2, 10)
        ops = []
        cut = set()
        for _ in range(r.randrange(1, 8)):
            k = r.random()
            if k < 0.4:
                p = r.randrange(1, ns)
                if p not in cut:
                    cut.add(p)
                    ops.append("b%d" % p)
            else:
                # a complete round trip: sentinel in front of a slot, removed again
                ops.append("a%d" % r.randrange(0, ns))
                ops.append("d%d" % (len([o for o in ops if o[0] == "a"]) - 1))
        out.append("lines %d %s" % (ns, " ".join(ops)))
    # unstructured sequences too (correspondence only)
    for _ in range(n // 2):
        ns = r.randrange(1, 9)
        ops = []
        na = 0
        for _ in range(r.randrange(1, 8)):
            k = r.random()
            if k < 0.3:
                ops.append("b%d" % r.randrange(0, ns))
            elif k < 0.55:
                ops.append("a%d" % r.randrange(-1, ns))
                na += 1
            elif k < 0.8 and na:
                ops.append("d%d" % r.randrange(0, na))
            elif k < 0.9:
                ops.append("F%d" % r.randrange(0, ns))
            else:
                ops.append("L%d" % r.randrange(0, ns))
        out.append("lines %d %s" % (ns, " ".join(ops)))
    return out


def lines_holds(l, i):
    w = l.split()
    ops = w[2:]
    if any(o[0] in "FL" for o in ops) or any(o.startswith("a-1") for o in ops):
        return None, ""
    # structured: every sentinel is removed right after it was added
    na = [o for o in ops if o[0] == "a"]
    nd = [o for o in ops if o[0] == "d"]
    if len(na) != len(nd):
        return None, ""
    cnt = 0
    for k, o in enumerate(ops):
        if o[0] == "a":
            if k + 1 >= len(ops) or ops[k + 1] != "d%d" % cnt:
                return None, ""
            cnt += 1
    exp = expected_lines(int(w[1]), ops)
    if exp is None:
        return None, ""
    if i.startswith(("CRASH", "fault")):
        return False, "crash / fault in linebreak_before / addLineEnd / delLineEnd on a well-formed stream"
    if i != exp:
        return False, "after the cuts and completed sentinel round trips the links are '%s', expected '%s'" % (i[:150], exp[:150])
    return True, ""


def walks(x):
    return [p for p in x.split(" | ") if p.startswith("lines=")]


def groups(w):
    return [g.split(",") if g else [] for g in re.findall(r"\[([^\]]*)\]", w)]


def history_verdict(x):
    if x.startswith(("CRASH", "fault", "TIMEOUT")):
        return False, "crash, sanitizer fault or no return from gr_seg_justify"
    ws = walks(x)
    if not ws:
        return None, ""
    g0 = groups(ws[0])
    for w in ws[1:]:
        if "!" in w or "CYCLE" in w:
            return False, "a line is no longer a consistent doubly linked chain (prev does not invert next, or a cycle): " + w[:200]
        if "~" in w:
            return False, "non-finite origin after justification"
        g = groups(w)
        if [len(a) for a in g] != [len(a) for a in g0]:
            return False, "lines changed length: %s -> %s" % ([len(a) for a in g0], [len(a) for a in g])
        if any("P" in (a[0] if a else "") for a in g):
            return False, "a line start acquired a predecessor: " + w[:200]
    for p in x.split(" | "):
        if p.startswith("j=") and p[2:] in ("nan", "inf", "-inf"):
            return False, "gr_seg_justify returned a non-finite width"
        if p == "leak=1":
            return False, "memory still allocated after gr_seg_destroy"
    return True, ""


def histories(r, n):
    lines, meta = [], []
    for _ in range(n):
        fi = r.randrange(len(FONTS))
        name, fdir, text = FONTS[fi]
        d = r.randrange(8)
        hx = "".join("%08x" % ord(c) for c in text)
        nb = r.randrange(0, 4)
        br = sorted(set(r.randrange(1, len(text)) for _ in range(nb)))
        ops = ["F0=%d,0,f" % fi, "N0=0,%s" % r.choice(["12", "20", "0.5"]), "S0=0,%d,-1,0,32,%d,-1,%s" % (r.choice([0, -1]), d, hx)]
        if br:
            ops.append("B0=" + ",".join(map(str, br)))
        ops.append("W0")
        for _ in range(r.randrange(1, 4)):
            ops.append("J0=%d,%d,%s,%d,%d,%d" % (r.randrange(0, len(br) + 1), r.choice([0, -1]), r.choice(["100", "0", "-1", "1000", "1e9", "300.5", "-50"]),
                                                 r.choice([0, 1, 2, 3]), r.choice([-1, -1, 0, 1, 2]), r.choice([-1, -1, 0, 1, 3])))
            ops.append("W0")
        ops += ["d0", "L0"]
        lines.append(";".join(ops))
        meta.append({"font": name, "opposite": (d & 1) != fdir, "breaks": bool(br), "dir": d})
    return lines, meta


def matches_known(k, f):
    sig = k.get("signature", {})
    return f.get("mode") == "history" and f.get("opposite") is True and f.get("breaks") is True and sig.get("opposite_dir_and_break")


def run(ctx):
    res = lib.Result()
    q = ctx.quick()
    r = lib.rng("c19")
    lib.correspond(ctx, res, "h_heap", "lines", lines_gen(r, 2000 if q else 60000), lines_holds, exe_args=[str(lib.REPO / "tests" / "fonts" / "general.ttf")], per_chunk=400,
                   rule="lines: 1..9 slots, cuts before interior slots, sentinel round trips (addLineEnd in front of a slot, delLineEnd), plus unstructured sequences incl. addLineEnd(NULL), redirected first/last")
    exe = lib.build_harness("h_seg")
    lines, meta = histories(r, 600 if q else 20000)
    fonts = [str(lib.REPO / "tests" / "fonts" / f[0]) for f in FONTS]
    impl = lib.run_lines([exe] + fonts, lines, per_chunk=50, timeout=120, env=lib.LEAK_ENV)
    res.harness.append("h_seg histories (implementation only)")
    res.rules.append("histories: 6 shipped fonts x dir 0..7 x 0..3 cuts x 1..3 gr_seg_justify calls (width in {-50,-1,0,100,300.5,1000,1e9}, flags 0..3, first/last in {NULL,0..3}, with/without gr_font), per-line walk after each, destroy + leak check")
    for l, i, m in zip(lines, impl, meta):
        res.evaluations += 1
        res.distinct.add(l)
        ok, why = history_verdict(i)
        cls = ("opposite" if m["opposite"] else "same") + ("+breaks" if m["breaks"] else "")
        res.count("history:%s:%s" % (cls, "ok" if ok else ("skip" if ok is None else "FAIL")))
        if ok is False:
            res.failures.append({"harness": "h_seg", "mode": "history", "line": l, "impl": i[:800], "model": None, "why": why, "exe_args": fonts,
                                 "opposite": m["opposite"], "breaks": m["breaks"], "font": m["font"], "dir": m["dir"]})
    res.samples.append({"in": lines[0][:300], "impl": impl[0][:300], "model": "(no model at this level)"})
    return res.as_dict()


def replay(ctx, obj):
    if obj.get("mode") == "history":
        exe = lib.build_harness("h_seg")
        out = lib.run_lines([exe] + obj["exe_args"], [obj["line"]], timeout=120)[0]
        ok, why = history_verdict(out)
        print("input : %s\nimpl  : %s\nproperty predicate on impl output: %s %s" % (obj["line"][:400], out[:800], ok, why))
        return ok is False
    return lib.replay_lines(ctx, obj, {"lines": lines_holds})

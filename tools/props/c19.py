"""C19 — line breaking and justification keep every line a well-formed chain (DESIGN.md §6; partial)."""
import re
import lib

GEN_MODULES = ["Justify"]
ASSUMPTIONS = ["theorems: cutting splits the stream into two well-formed chains; the line-end sentinel round trip restores every link (Props/C19.lean)",
               "Segment::justify as a whole (arithmetic, justification passes, positionSlots, reverseSlots) is not modelled: its clauses are decided on the implementation by API histories",
               "known finding D-10b: justify with a requested direction opposite to the font's on a line-broken segment relinks slots across lines"]
TRUSTED = ["hand-written model GrVerif/Model/Lines.lean (tied by correspondence on cut / sentinel operation sequences)"]

FONTS = [("Padauk.ttf", 0, "ကောင်းသော မြန်မာ စာ"),
         ("Scheherazadegr.ttf", 1, "السلام عليكم ورحمة الله"),
         ("charis_r_gr.ttf", 0, "hello world office affinity"),
         ("AwamiNastaliq-Regular.ttf", 1, "یہ ایک جملہ ہے"),
         ("Annapurnarc2.ttf", 0, "नमस्ते दुनिया क्षि"),
         ("MagyarLinLibertineG.ttf", 0, "fi fl ffi office")]


def expected_lines(n, ops):
    """independent computation of the state after cuts and completed sentinel round trips"""
    nxt = {i: (i + 1 if i + 1 < n else -1) for i in range(n)}
    prv = {i: i - 1 for i in range(n)}
    for op in ops:
        if op[0] == "b":
            p = int(op[1:])
            q = prv[p]
            if q < 0:
                return None
            nxt[q] = -1
            prv[p] = -1
    return "first=0 last=%d " % (n - 1) + " ".join("%d:%d,%d" % (i, nxt[i], prv[i]) for i in range(n))


def lines_gen(r, n):
    out = []
    for _ in range(n):
        ns = r.randrange(2, 10)
        ops = []
        cut = set()
        for _ in range(r.randrange(1, 8)):
            k = r.random()
            if k < 0.4:
                p = r.randrange(1, ns)
                if p not in cut:
                    cut.add(p)
                    ops.append("b%d" % p)
            else:
                # a complete round trip: sentinel in front of a slot, removed again
                ops.append("a%d" % r.randrange(0, ns))
                ops.append("d%d" % (len([o for o in ops if o[0] == "a"]) - 1))
        out.append("lines %d %s" % (ns, " ".join(ops)))
    # unstructured sequences too (correspondence only)
    for _ in range(n // 2):
        ns = r.randrange(1, 9)
        ops = []
        na = 0
        for _ in range(r.randrange(1, 8)):
            k = r.random()
            if k < 0.3:
                ops.append("b%d" % r.randrange(0, ns))
            elif k < 0.55:
                ops.append("a%d" % r.randrange(-1, ns))
                na += 1
            elif k < 0.8 and na:
                ops.append("d%d" % r.randrange(0, na))
            elif k < 0.9:
                ops.append("F%d" % r.randrange(0, ns))
            else:
                ops.append("L%d" % r.randrange(0, ns))
        out.append("lines %d %s" % (ns, " ".join(ops)))
    return out


def lines_holds(l, i):
    w = l.split()
    if w[0] == "jsize":
        # SlotJustify::size_of(levels) on the implementation: the stride must keep every record aligned for its next pointer
        m = re.match(r"size_of=(\d+) rec=(\d+) ptr=(\d+) params=(\d+)", i)
        if not m:
            return False, "no answer"
        sz, rec, ptr, params = (int(x) for x in m.groups())
        if sz % ptr:
            return False, "the stride of the justification records is not a multiple of the pointer size: records are misaligned"
        # a record is the struct (which holds values[0]) and levels * NUMJUSTPARAMS - 1 more int16 values; a font without levels is given one
        need = rec + (max(int(w[1]), 1) * params - 1) * 2
        return sz >= need, "the stride of the justification records (%d) is smaller than a record (%d bytes): records overlap" % (sz, need)
    ops = w[2:]
    if any(o[0] in "FL" for o in ops) or any(o.startswith("a-1") for o in ops):
        return None, ""
    # structured: every sentinel is removed right after it was added
    na = [o for o in ops if o[0] == "a"]
    nd = [o for o in ops if o[0] == "d"]
    if len(na) != len(nd):
        return None, ""
    cnt = 0
    for k, o in enumerate(ops):
        if o[0] == "a":
            if k + 1 >= len(ops) or ops[k + 1] != "d%d" % cnt:
                return None, ""
            cnt += 1
    exp = expected_lines(int(w[1]), ops)
    if exp is None:
        return None, ""
    if i.startswith(("CRASH", "fault")):
        return False, "crash / fault in linebreak_before / addLineEnd / delLineEnd on a well-formed stream"
    if i != exp:
        return False, "after the cuts and completed sentinel round trips the links are '%s', expected '%s'" % (i[:150], exp[:150])
    return True, ""


def walks(x):
    return [p for p in x.split(" | ") if p.startswith("lines=")]


def groups(w):
    return [g.split(",") if g else [] for g in re.findall(r"\[([^\]]*)\]", w)]


def history_verdict(x):
    if x.startswith(("CRASH", "fault", "TIMEOUT")):
        return False, "crash, sanitizer fault or no return from gr_seg_justify"
    ws = walks(x)
    if not ws:
        return None, ""
    g0 = groups(ws[0])
    for w in ws[1:]:
        if "!" in w or "CYCLE" in w:
            return False, "a line is no longer a consistent doubly linked chain (prev does not invert next, or a cycle): " + w[:200]
        if "~" in w:
            return False, "non-finite origin after justification"
        g = groups(w)
        if [len(a) for a in g] != [len(a) for a in g0]:
            return False, "lines changed length: %s -> %s" % ([len(a) for a in g0], [len(a) for a in g])
        if any("P" in (a[0] if a else "") for a in g):
            return False, "a line start acquired a predecessor: " + w[:200]
    for p in x.split(" | "):
        if p.startswith("j=") and p[2:] in ("nan", "inf", "-inf"):
            return False, "gr_seg_justify returned a non-finite width"
        if p == "leak=1":
            return False, "memory still allocated after gr_seg_destroy"
    return True, ""


def histories(r, n):
    lines, meta = [], []
    for _ in range(n):
        fi = r.randrange(len(FONTS))
        name, fdir, text = FONTS[fi]
        d = r.randrange(8)
        hx = "".join("%08x" % ord(c) for c in text)
        nb = r.randrange(0, 4)
        br = sorted(set(r.randrange(1, len(text)) for _ in range(nb)))
        ops = ["F0=%d,0,f" % fi, "N0=0,%s" % r.choice(["12", "20", "0.5"]), "S0=0,%d,-1,0,32,%d,-1,%s" % (r.choice([0, -1]), d, hx)]
        if br:
            ops.append("B0=" + ",".join(map(str, br)))
        ops.append("W0")
        for _ in range(r.randrange(1, 4)):
            ops.append("J0=%d,%d,%s,%d,%d,%d" % (r.randrange(0, len(br) + 1), r.choice([0, -1]), r.choice(["100", "0", "-1", "1000", "1e9", "300.5", "-50"]),
                                                 r.choice([0, 1, 2, 3]), r.choice([-1, -1, 0, 1, 2]), r.choice([-1, -1, 0, 1, 3])))
            ops.append("W0")
        ops += ["d0", "L0"]
        lines.append(";".join(ops))
        meta.append({"font": name, "opposite": (d & 1) != fdir, "breaks": bool(br), "dir": d})
    return lines, meta


def just_fonts(r, n, tmp):
    """fonts with 1..3 justification levels (Silf JLevels naming glyph attributes for stretch, shrink, step, weight) whose values the
    loader does not look at: zero, positive and negative weights, steps of 0..5, stretch/shrink 0..40; optionally a rule that writes a
    justification attribute of the slot (which allocates the SlotJustify records at shaping time)"""
    import grfont as G
    small = str(lib.REPO / "tests" / "fonts" / "small.ttf")
    out = []
    for k in range(n):
        adv = r.random() < 0.35
        nlev = 1 if adv else r.choice([1, 1, 2, 2, 3, 4])
        justs, gattrs = [], {g: {} for g in (3, 4, 5)}
        for lev in range(nlev):
            base = 4 + 4 * lev
            justs.append((base, base + 1, base + 2, base + 3))
            S, kk, mm, way = r.choice([5, 15, 40]), r.choice([1, 2, 3]), r.choice([1, 2]), r.random() < 0.5
            for g in (3, 4, 5):
                if adv:
                    # one glyph of negative weight that can give way by S next to rigid glyphs of positive weight
                    st, sh, sp, wt = ((S, 0, 1, -kk) if way else (0, S, 1, -kk)) if g == 3 else ((0, 0, 1, mm) if g == 4 or r.random() < 0.5 else (0, 0, 1, 0))
                elif r.random() < 0.5:
                    # the combinations in which the distribution loop of Segment::justify has to clamp: a negative weight that can give way,
                    # next to rigid glyphs of positive weight
                    st, sh, sp, wt = r.choice([(0, 15, 1, -3), (0, 0, 1, 1), (15, 0, 1, -1), (0, 5, 1, -1), (40, 40, 1, 2), (0, 0, 1, 0), (10, 10, 2, -2), (0, 0, 1, 3)])
                else:
                    st, sh, sp, wt = r.choice([0, 0, 5, 15, 40]), r.choice([0, 0, 5, 15, 40]), r.choice([0, 1, 1, 2, 5]), r.choice([-3, -1, 0, 1, 1, 2, 5])
                gattrs[g].update({base: st, base + 1: sh, base + 2: sp, base + 3: wt})
        if r.random() < 0.4:
            act = G.code(G.PUSH_BYTE, r.randrange(0, 30), G.ATTR_SET, G.SL[r.choice(["JStretch", "JShrink", "JStep", "JWeight"])], G.NEXT, G.RET_ZERO)
        else:
            act = G.code(G.NEXT, G.RET_ZERO)
        # Silf flags bit 0: line-end contextuals (gr_seg_justify brackets the line with two temporary line-end slots); direction byte 2: a
        # right-to-left font (the bases of a segment whose direction bit is set are linked backwards)
        fdir = r.choice([0, 0, 1])
        silf = G.Silf([G.Pass([G.Rule(1, 0, action=act)], ranges=[(3, 3, 0)])], nglyphs=8, classes=[[3]], justs=justs, flags=r.choice([0, 0, 1]), direction=1 + fdir)
        p = tmp / ("j%d.ttf" % k)
        G.make_font(small, str(p), silf, nattrs=24, gattrs=gattrs, charmap={0x61: 3, 0x62: 4, 0x63: 5})
        out.append(str(p))
        JINFO[str(p)] = (S, way) if adv and nlev == 1 else None
        JDIR[str(p)] = fdir
    return out


ADV = {0x61: 462, 0x62: 520, 0x63: 462}
JINFO = {}
JDIR = {}


def just_histories(r, fonts, per_font):
    lines, meta = [], []
    for fi in range(len(fonts)):
        for _ in range(per_font):
            text = [r.choice([0x61, 0x62, 0x63]) for _ in range(r.randrange(2, 9))]
            if JINFO.get(fonts[fi]) and r.random() < 0.6:
                text = [r.choice([0x61, 0x62, 0x63])] + [0x61] * r.randrange(1, 4) + [0x62] * r.randrange(1, 3)
            hx = "".join("%08x" % c for c in text)
            nb = r.randrange(0, 3)
            br = sorted(set(r.randrange(1, len(text)) for _ in range(nb)))
            fd = JDIR.get(fonts[fi], 0)
            d = (r.choice([0, 2]) | fd) ^ (1 if r.random() < 0.3 else 0)
            meta.append({"opposite": (d & 1) != fd, "breaks": bool(br)})
            ops = ["F0=%d,0,f" % fi, "N0=0,%s" % r.choice(["1000", "1000", "12"]), "S0=0,-1,-1,0,32,%d,-1,%s" % (d, hx)]
            if br:
                ops.append("B0=" + ",".join(map(str, br)))
            ops.append("W0")
            for _ in range(r.randrange(1, 4)):
                # the glyphs of small.ttf advance by about 460..520 units: widths around the natural width of 1..8 of them, a little
                # narrower or wider, and the extremes
                # (at 1000 ppm, the font's units per em, the glyphs a b c advance by 462, 520, 462): the natural width of the text or of a
                # part of it, a little narrower or wider - by the stretch and shrink values the generator hands out and by odd amounts -
                # and the extremes
                nat = sum(ADV[c] for c in text[:r.choice([len(text), len(text), r.randrange(1, len(text) + 1)])])
                w = r.choice([str(nat + r.choice([-1, 1]) * r.choice([0, 1, 5, 10, 15, 20, 30, 40, 45, 80, r.randrange(0, 100)])), "0", "-1", "1e9", "100"])
                info = JINFO.get(fonts[fi])
                if info and not br and r.random() < 0.6:
                    # exactly as much as the glyphs of negative weight can give way (the first slot of a line takes no part)
                    w = str(sum(ADV[c] for c in text) + (1 if info[1] else -1) * info[0] * sum(1 for c in text[1:] if c == 0x61))
                    ops.append("J0=0,0,%s,0,-1,-1" % w)
                    ops.append("W0")
                    continue
                ops.append("J0=%d,%d,%s,%d,%d,%d" % (r.randrange(0, len(br) + 1), r.choice([0, -1]), w, r.choice([0, 1, 2, 3]), r.choice([-1, -1, 0, 1]), r.choice([-1, -1, 0, 3])))
                ops.append("W0")
            ops += ["d0", "L0"]
            lines.append(";".join(ops))
    return lines, meta


def matches_known(k, f):
    sig = k.get("signature", {})
    return f.get("mode") in ("history", "justfont") and f.get("opposite") is True and f.get("breaks") is True and sig.get("opposite_dir_and_break")


def run(ctx):
    res = lib.Result()
    q = ctx.quick()
    r = lib.rng("c19")
    lib.correspond(ctx, res, "h_heap", "lines", ["jsize %d" % k for k in range(0, 260)] + lines_gen(r, 2000 if q else 60000), lines_holds, exe_args=[str(lib.REPO / "tests" / "fonts" / "general.ttf")], per_chunk=400,
                   rule="jsize: SlotJustify::size_of(0..259) and the two sizes it is made of against Gen/Justify.lean; lines: 1..9 slots, cuts before interior slots, sentinel round trips (addLineEnd in front of a slot, delLineEnd), plus unstructured sequences incl. addLineEnd(NULL), redirected first/last")
    exe = lib.build_harness("h_seg")
    lines, meta = histories(r, 600 if q else 20000)
    fonts = [str(lib.REPO / "tests" / "fonts" / f[0]) for f in FONTS]
    impl = lib.run_lines([exe] + fonts, lines, per_chunk=50, timeout=120, env=lib.LEAK_ENV)
    res.harness.append("h_seg histories (implementation only)")
    res.rules.append("histories: 6 shipped fonts x dir 0..7 x 0..3 cuts x 1..3 gr_seg_justify calls (width in {-50,-1,0,100,300.5,1000,1e9}, flags 0..3, first/last in {NULL,0..3}, with/without gr_font), per-line walk after each, destroy + leak check")
    for l, i, m in zip(lines, impl, meta):
        res.evaluations += 1
        res.distinct.add(l)
        ok, why = history_verdict(i)
        cls = ("opposite" if m["opposite"] else "same") + ("+breaks" if m["breaks"] else "")
        res.count("history:%s:%s" % (cls, "ok" if ok else ("skip" if ok is None else "FAIL")))
        if ok is False:
            res.failures.append({"harness": "h_seg", "mode": "history", "line": l, "impl": i[:800], "model": None, "why": why, "exe_args": fonts,
                                 "opposite": m["opposite"], "breaks": m["breaks"], "font": m["font"], "dir": m["dir"]})
    res.samples.append({"in": lines[0][:300], "impl": impl[0][:300], "model": "(no model at this level)"})
    # fonts with justification levels: Segment::justify's distribution loop and the SlotJustify records
    import os
    import shutil
    tmp = lib.CACHE / ("just-%d" % os.getpid())
    tmp.mkdir(parents=True, exist_ok=True)
    try:
        jf = [str(p) for p in sorted((lib.ROOT / "corpus" / "c19").glob("*.ttf"))] if (lib.ROOT / "corpus" / "c19").exists() else []
        ncorp = len(jf)
        jf += just_fonts(r, 60 if q else 1500, tmp)
        jl, jm = just_histories(r, jf, 6 if q else 10)
        for cf in sorted((lib.ROOT / "corpus" / "c19").glob("*.line")) if ncorp else []:
            jl.insert(0, cf.read_text().strip())
            jm.insert(0, {"opposite": False, "breaks": False})
        ji = lib.run_lines([exe] + jf, jl, per_chunk=50, timeout=120, env=lib.LEAK_ENV)
        res.rules.append("justification fonts: %d corpus + %d synthesised fonts (1..4 justification levels; stretch, shrink, step and weight glyph attributes of either sign; optional rule writing a justification attribute) x texts of 2..8 glyphs x 0..2 cuts x 1..3 gr_seg_justify calls around the natural width" % (ncorp, len(jf) - ncorp))
        for l, i, m in zip(jl, ji, jm):
            res.evaluations += 1
            res.distinct.add(l)
            ok, why = history_verdict(i)
            res.count("justfont:%s:%s" % (("opposite" if m["opposite"] else "same") + ("+breaks" if m["breaks"] else ""), "ok" if ok else ("skip" if ok is None else "FAIL")))
            if ok is False:
                fi = int(l.split("=")[1].split(",")[0])
                res.failures.append({"harness": "h_seg", "mode": "justfont", "line": l, "impl": i[:800], "model": None, "why": why, "exe_args": [],
                                     "opposite": m["opposite"], "breaks": m["breaks"], "font_hex": open(jf[fi], "rb").read().hex()})
    finally:
        shutil.rmtree(tmp, ignore_errors=True)
    return res.as_dict()


def replay(ctx, obj):
    if obj.get("mode") == "justfont":
        import os
        exe = lib.build_harness("h_seg")
        tmp = lib.CACHE / ("justreplay-%d.ttf" % os.getpid())
        tmp.write_bytes(bytes.fromhex(obj["font_hex"]))
        try:
            l = re.sub(r"^F0=\d+,", "F0=0,", obj["line"])
            out = lib.run_lines([exe, str(tmp)], [l], timeout=120, env=lib.LEAK_ENV)[0]
        finally:
            tmp.unlink()
        ok, why = history_verdict(out)
        print("input : %s\nimpl  : %s\nproperty predicate on impl output: %s %s" % (l[:400], out[:800], ok, why))
        return ok is False
    if obj.get("mode") == "history":
        exe = lib.build_harness("h_seg")
        out = lib.run_lines([exe] + obj["exe_args"], [obj["line"]], timeout=120)[0]
        ok, why = history_verdict(out)
        print("input : %s\nimpl  : %s\nproperty predicate on impl output: %s %s" % (obj["line"][:400], out[:800], ok, why))
        return ok is False
    return lib.replay_lines(ctx, obj, {"lines": lines_holds})

"""C07 — the stack machine follows the opcode spec; both interpreter builds agree (DESIGN.md §6 C07)."""
import lib

GEN_MODULES = ["Vm"]
ASSUMPTIONS = ["signed overflow in `int32(param[0]) << 24` and similar shifts is taken as two's-complement wrap (what gcc/clang generate)",
               "the slot cursor side effect of DIE (`is = seg.last()`) is outside the scalar state",
               "second clause (whole-library equality of the two interpreter builds on shaping) is exercised by the C03 dump check with both builds; here both builds run every generated program"]
TRUSTED = ["tools/vmtrans.py: C++ subset -> Lean translation of the 34 scalar opcode bodies, cross-checked on every run by executing the real opcodes against Gen.Vm",
           "hand-written Model/Vm.lean (loader subset, run loop, epilogue) and Model/VmPrelude.lean (meaning of push/pop/declare_params/DIE/EXIT macros, whose #define texts the translator pins)",
           "property predicate: an independent Python evaluator of the opcode table in doc/OpCodes.adoc"]
FONT = lib.REPO / "tests" / "fonts" / "Padauk.ttf"

GRID = [0, 1, 2, -1, -2, 0x7f, 0x80, 0xff, 0x100, 0x7fff, 0x8000, 0xffff, 0x10000, 0x7fffffff, -0x80000000, -0x7fffffff, 0x40000000, 3, 7, 0x12345678]
BIN = [6, 7, 8, 9, 10, 11, 16, 17, 19, 20, 21, 22, 23, 24, 62, 63]
UN = [12, 13, 14, 18, 64]
M32 = 0xffffffff


def push(v):
    v &= M32
    return [5, (v >> 24) & 255, (v >> 16) & 255, (v >> 8) & 255, v & 255]


def s32(v):
    v &= M32
    return v - (1 << 32) if v & 0x80000000 else v


class Stuck(Exception):
    pass


def py_eval(prog):
    """Independent evaluator (doc/OpCodes.adoc). prog = list of bytes. Returns ('ret', value, below) | ('die', stack) | ('overflow',) ."""
    st = []
    i = 0
    n = len(prog)
    while i < n:
        op = prog[i]
        i += 1

        def need(k):
            if len(st) < k:
                raise Stuck()
        if op == 0:
            pass
        elif op == 1:
            b = prog[i]; i += 1; st.append(b - 256 if b >= 128 else b)
        elif op == 2:
            st.append(prog[i]); i += 1
        elif op == 3:
            v = prog[i] * 256 + prog[i + 1]; i += 2; st.append(v - 65536 if v >= 32768 else v)
        elif op == 4:
            st.append(prog[i] * 256 + prog[i + 1]); i += 2
        elif op == 5:
            st.append(s32((prog[i] << 24) | (prog[i + 1] << 16) | (prog[i + 2] << 8) | prog[i + 3])); i += 4
        elif op in BIN:
            need(2)
            x = st.pop(); y = st.pop()
            if op == 6: r = s32(y + x)
            elif op == 7: r = s32(y - x)
            elif op == 8: r = s32(y * x)
            elif op == 9:
                if x == 0 or (y == -0x80000000 and x == -1):
                    return ("die", st + [y])
                q = abs(y) // abs(x)
                r = q if (y < 0) == (x < 0) else -q
            elif op == 10: r = min(y, x)
            elif op == 11: r = max(y, x)
            elif op == 16: r = int(y != 0 and x != 0)
            elif op == 17: r = int(y != 0 or x != 0)
            elif op == 19: r = int(y == x)
            elif op == 20: r = int(y != x)
            elif op == 21: r = int(y < x)
            elif op == 22: r = int(y > x)
            elif op == 23: r = int(y <= x)
            elif op == 24: r = int(y >= x)
            elif op == 62: r = s32((y & M32) | (x & M32))
            else: r = s32((y & M32) & (x & M32))
            st.append(r)
        elif op in UN:
            need(1)
            x = st.pop()
            st.append({12: s32(-x), 13: (x & M32) % 256, 14: (x & M32) % 65536, 18: int(x == 0), 64: s32(~x)}[op])
        elif op == 15:
            need(3)
            f = st.pop(); t = st.pop(); c = st.pop()
            st.append(t if c != 0 else f)
        elif op == 48:
            need(1)
            v = st.pop()
            return ("ret", v, st)
        elif op == 49:
            return ("ret", 0, st)
        elif op == 50:
            return ("ret", 1, st)
        elif op == 54:
            i += 1; st.append(1)
        elif op == 55:
            st.append(0x00030000)
        elif op == 65:
            need(1)
            m = prog[i] * 256 + prog[i + 1]; v = prog[i + 2] * 256 + prog[i + 3]; i += 4
            x = st.pop()
            st.append(s32(((x & M32) & ~m & M32) | v))
        else:
            raise Stuck()
        if len(st) >= 1024:
            return ("overflow",)
    raise Stuck()


def expected(prog):
    try:
        r = py_eval(prog)
    except (Stuck, IndexError):
        return None
    if r[0] == "ret":
        if not r[2]:
            return "run=finished ret=%d" % r[1]
        return "run=%s ret=0" % ("stack_overflow" if len(r[2]) + 1 >= 1024 else "stack_not_empty")
    if r[0] == "die":
        return "run=died_early ret=%d" % (1 if len(r[1]) == 0 else 0)
    return "run=stack_overflow ret=0"


def holds(line, out):
    w = line.split()
    if out.startswith("CRASH"):
        return False, "the implementation crashed"
    if "fault" in out:
        return False, "out-of-bounds access in the interpreter"
    if not out.startswith("load=loaded"):
        return None, ""                     # the loader refused it: the property speaks about accepted programs
    prog = list(bytes.fromhex(w[3])) if w[3] != "-" else []
    exp = expected(prog)
    if exp is None:
        return None, ""                     # outside the scalar subset / not a straight-line program the reference covers
    got = out[len("load=loaded "):]
    return got == exp, "the opcode specification gives `%s`" % exp


def gen_programs(ctx):
    r = lib.rng("c07")
    P = []
    # every binary opcode on every operand pair of the boundary grid; unary on every grid value; cond on triples
    for op in BIN:
        for a in GRID:
            for b in GRID:
                P.append(push(a) + push(b) + [op, 48])
    for op in UN:
        for a in GRID:
            P.append(push(a) + [op, 48])
    for c in GRID[:8]:
        for t in GRID[:6]:
            for f in GRID[:6]:
                P.append(push(c) + push(t) + push(f) + [15, 48])
    for a in GRID:
        for m in (0, 1, 0xff, 0xff00, 0xffff, 0x8000, 0x1234):
            for v in (0, 1, 0xffff, 0x8000, 0x00f0):
                P.append(push(a) + [65, m >> 8, m & 255, v >> 8, v & 255, 48])
    for b in range(256):
        P.append([1, b, 48]); P.append([2, b, 48]); P.append([54, b, 48])
    for a in (0, 1, 0x7f, 0x80, 0xff):
        for b in (0, 1, 0x7f, 0x80, 0xff):
            P.append([3, a, b, 48]); P.append([4, a, b, 48])
            for c in (0, 0x80, 0xff):
                P.append([5, a, b, c, 0x42, 48]); P.append([5, c, 0x01, a, b, 48])
    P += [[49], [50], [55, 48], [0, 0, 55, 0, 48], [55, 49], [55, 55, 50], [55, 55, 48]]
    # random well-formed straight-line programs with a stack-depth-aware generator
    n = 6000 if ctx.quick() else 300000
    for _ in range(n):
        prog = []
        depth = 0
        for _ in range(r.randrange(1, 40)):
            choices = ["push"] * 3
            if depth >= 2: choices += ["bin"] * 4
            if depth >= 1: choices += ["un", "un", "bitset"]
            if depth >= 3: choices += ["cond"] * 2
            choices += ["nop"]
            k = r.choice(choices)
            if k == "push":
                form = r.randrange(8)
                if form == 0: prog += [1, r.randrange(256)]
                elif form == 1: prog += [2, r.randrange(256)]
                elif form == 2: prog += [3, r.randrange(256), r.randrange(256)]
                elif form == 3: prog += [4, r.randrange(256), r.randrange(256)]
                elif form == 4: prog += [55]
                elif form == 5: prog += [54, r.randrange(256)]
                else: prog += push(r.choice(GRID) if r.random() < 0.6 else r.getrandbits(32))
                depth += 1
            elif k == "bin":
                prog.append(r.choice(BIN)); depth -= 1
            elif k == "un":
                prog.append(r.choice(UN))
            elif k == "bitset":
                prog += [65, r.randrange(256), r.randrange(256), r.randrange(256), r.randrange(256)]
            elif k == "cond":
                prog.append(15); depth -= 2
            else:
                prog.append(0)
        prog.append(r.choice([48, 48, 48, 49, 50]) if depth >= 1 else r.choice([49, 50]))
        P.append(prog)
    # stack growth to the limit
    for k in (1021, 1022, 1023, 1024, 1025, 1030):
        P.append([55] * k + [50])
        P.append([55] * k + [48])
        P.append([55] * k + [6] * (k - 1) + [48])       # the whole stack folded back into one value: finishes iff the peak depth k stays below STACK_MAX
        P.append([55] * k + [7] + [6] * (k - 2) + [48])
    # malformed stream: the loader's verdict must agree with the model's
    for _ in range(3000 if ctx.quick() else 50000):
        k = r.randrange(6)
        if k == 0:
            P.append([r.choice(BIN + UN + [15, 48, 65])] + [48])                 # underfull
        elif k == 1:
            P.append(push(1)[: r.randrange(1, 5)])                              # truncated operands
        elif k == 2:
            P.append(push(1) + [r.randrange(66, 256), 48])                      # invalid opcode
        elif k == 3:
            P.append(push(1) + push(2) + [r.choice(BIN)])                       # missing return
        elif k == 4:
            P.append([r.choice([26, 47, 57, 58]), 48])                          # unimplemented
        else:
            P.append([r.choice([0, 1, 2, 3, 4, 5, 6, 12, 15, 48, 49, 54, 55, 65]) for _ in range(r.randrange(0, 8))])
    return P


def classify(l, o):
    w = o.split()
    return "%s %s" % (l.split()[1] + l.split()[2], " ".join(x for x in w[:2] if not x.startswith("ret=")))


def run(ctx):
    res = lib.Result()
    P = gen_programs(ctx)
    for ca in ("a", "c"):
        for dk, vm in (("d", "direct"), ("k", "call")):
            lines = ["vm %s %s %s" % (ca, dk, lib.hexs(p)) for p in P]
            lib.correspond(ctx, res, "h_vm", "vm", lines, holds, classify=classify, vm=vm, exe_args=[FONT],
                           rule="vm: every binary opcode x 20x20 boundary operands, unary/cond/bitset grids, all operand bytes of the push forms, random well-formed straight-line programs (depth-aware), stack growth to the limit, malformed programs; each as action and as constraint code, on the direct-threaded and on the call-threaded build" if (ca, dk) == ("a", "d") else "")
    both_builds(ctx, res)
    return res.as_dict()


E2E = [("AwamiNastaliq-Regular.ttf", "awami_tests.txt", 1), ("Padauk.ttf", "my_HeadwordSyllables.txt", 0), ("Scheherazadegr.ttf", "udhr_arb.txt", 1),
       ("charis_r_gr.ttf", "udhr_eng.txt", 0), ("Annapurnarc2.ttf", "udhr_nep.txt", 0)]


def both_builds(ctx, res):
    """second clause of C07: the direct-threaded and the call-threaded build shape identically (public-API dumps)"""
    fonts, lines = [], []
    for fi, (font, text, d) in enumerate(E2E):
        fp, tp = lib.REPO / "tests" / "fonts" / font, lib.REPO / "tests" / "texts" / text
        if not fp.exists() or not tp.exists():
            continue
        fonts.append(str(fp))
        rows = [l.strip() for l in tp.read_text(encoding="utf-8", errors="replace").splitlines() if l.strip()]
        step = 1 if (not ctx.quick() or font.startswith("Awami")) else max(1, len(rows) // 60)
        for row in rows[::step][: (100000 if not ctx.quick() else 600)]:
            cps = [ord(c) for c in row[:60] if not 0xD800 <= ord(c) < 0xE000]
            hx = "".join("%08x" % c for c in cps) or "-"
            lines.append("F0=%d,0,f;N0=0,24;S0=0,0,-1,0,32,%d,-1,%s;D0" % (len(fonts) - 1, d, hx))
    if not lines:
        return
    a = lib.run_lines([lib.build_harness("h_seg", vm="direct")] + fonts, lines, per_chunk=60)
    b = lib.run_lines([lib.build_harness("h_seg", vm="call")] + fonts, lines, per_chunk=60)
    res.harness.append("h_seg direct vs call (implementation only)")
    res.rules.append("both builds: %d lines of tests/texts through the shipped fonts (Awami right-to-left with collision fixing, Padauk, Scheherazade, Charis, Annapurna), full public-API dump" % len(lines))
    for l, x, y in zip(lines, a, b):
        res.evaluations += 1
        res.distinct.add(l)
        res.count("both-builds:" + ("same" if x == y else "DIFFERENT"))
        if x != y or x.startswith(("CRASH", "fault")):
            k = next((i for i in range(min(len(x), len(y))) if x[i] != y[i]), 0)
            res.failures.append({"harness": "h_seg", "mode": "both-builds", "line": l, "impl": x[max(0, k - 80):k + 120], "model": y[max(0, k - 80):k + 120], "exe_args": fonts,
                                 "why": "the direct-threaded and the call-threaded build produce different segments (first difference at column %d of the dump)" % k})


def replay(ctx, obj):
    if obj.get("mode") == "both-builds":
        a = lib.run_lines([lib.build_harness("h_seg", vm="direct")] + obj["exe_args"], [obj["line"]])[0]
        b = lib.run_lines([lib.build_harness("h_seg", vm="call")] + obj["exe_args"], [obj["line"]])[0]
        print("input : %s\ndirect: %s\ncall  : %s\nsame: %s" % (obj["line"][:300], a[:400], b[:400], a == b))
        return a != b
    return lib.replay_lines(ctx, obj, {"vm": holds})

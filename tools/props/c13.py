"""C13 — characters map to the glyphs the cmap assigns, by either lookup path (DESIGN.md §6 C13)."""
import struct
import lib
import cmapgen
import sfnt

GEN_MODULES = []
EXTRA_PROPS = ["GrVerif.Props.C13Eq"]
ASSUMPTIONS = ["agreement of the two lookup paths is a theorem (cached_lookup_is_direct_lookup) for every table whose subtables' ranges are sorted and disjoint; harness and model each evaluate that hypothesis (sorted=) on every table, and the implementation's two paths must agree on every table for which it holds - shipped, synthesised or mutated; equality with the OpenType reference is required for well-formed synthesised tables; for mutated tables with unsorted/overlapping ranges only absence of out-of-bounds accesses and model = implementation",
               "well-formed synthesised tables: format-4 segments sorted, disjoint, ending with 0xFFFF; format-12 groups sorted, disjoint",
               "the Silf pseudo-glyph fallback (gr_face_is_char_supported) is not part of this check: Face::cmap() is queried directly"]
TRUSTED = ["hand-written model GrVerif/Model/Cmap.lean (tied by exhaustive comparison over all 0x110000 code points per table)",
           "property predicate: tools/cmapgen.py ref_pairs - OpenType cmap semantics written from the specification"]
BASE = lib.REPO / "tests" / "fonts" / "general.ttf"


def gen_wf(r, consistent=True):
    """(table bytes, segs, groups)"""
    # format 4
    segs = []
    cur = r.choice([0, 0x20, 0x41])
    nseg = r.choice([1, 2, 3, 5, 8, 20, 60])
    for _ in range(nseg):
        if cur >= 0xfff0:
            break
        st = cur + r.choice([0, 1, 2, 5, 0x40, 0xff, 0x100, r.randrange(1, 0x300)])
        if st >= 0xfffe:
            break
        ln = r.choice([1, 1, 2, 3, 16, 0xff, 0x100, 0x101, r.randrange(1, 0x200)])
        en = min(st + ln - 1, 0xfffe)
        if r.random() < 0.6:
            segs.append((st, en, "delta", r.choice([0, 1, 0xffff, 0x8000, r.randrange(0x10000), (0x10000 - st) & 0xffff])))
        else:
            arr = [r.choice([0, 1, r.randrange(0x10000)]) for _ in range(en - st + 1)]
            segs.append((st, en, "array", (r.choice([0, 0, 1, 0xffff, r.randrange(0x10000)]), arr)))
        cur = en + 1
    segs.append((0xffff, 0xffff, "delta", r.choice([1, 1, 1, 8, 0])))       # usual terminator maps U+FFFF to glyph 0 (delta 1)
    subs = [(3, 1, cmapgen.fmt4(segs))]
    groups = None
    if r.random() < 0.6:
        groups = []
        cur = 0x10000 if consistent or r.random() < 0.5 else r.choice([0x41, 0x100, 0x10000])
        for _ in range(r.choice([1, 2, 5, 30])):
            st = cur + r.choice([0, 1, 0x100, 0xff, r.randrange(0x2000)])
            if st > 0x10ffff:
                break
            en = min(st + r.choice([0, 1, 0xff, 0x100, 0x1ff, r.randrange(0x800)]), 0x10ffff)
            groups.append((st, en, r.choice([1, 0xfff0, r.randrange(0x10000), r.randrange(0x20000)])))
            cur = en + 1
        if r.random() < 0.15 and groups and groups[-1][1] < 0x10ff00:
            groups.append((0x10fff0, 0x10ffff, r.randrange(1, 0x1000)))
        if consistent:
            # the full-repertoire subtable repeats the BMP mappings, as real fonts do
            bmp = []
            for st, en, kind, pl in segs:
                if kind == "delta" and en - st < 0x400 and ((st + pl) & 0xffff) + (en - st) <= 0xffff and ((st + pl) & 0xffff) != 0 and st != 0xffff:
                    bmp.append((st, en, (st + pl) & 0xffff))
            groups = bmp + groups
        subs.append((3, 10, cmapgen.fmt12(groups)))
    if r.random() < 0.2:
        subs.insert(0, (1, 0, struct.pack(">HHH", 0, 262, 0) + bytes(256)))
    return cmapgen.cmap_table(subs), segs, groups


def mutate(r, t):
    b = bytearray(t)
    k = r.randrange(9)
    if k >= 6 and len(b) > 30:
        # the range arrays of the first subtable: an end or start code moved onto / next to / past its neighbour (ranges that touch, overlap,
        # are empty or out of order), or two entries swapped
        o = struct.unpack(">I", b[8:12])[0]
        if o + 16 < len(b) and struct.unpack(">H", b[o:o + 2])[0] == 4:
            n = struct.unpack(">H", b[o + 6:o + 8])[0] // 2
            if n >= 2 and o + 16 + 4 * n <= len(b):
                i = r.randrange(n - 1)
                e_at = lambda j: o + 14 + 2 * j
                s_at = lambda j: o + 16 + 2 * n + 2 * j
                if k == 6:
                    x, y = r.choice([(e_at(i), s_at(i + 1)), (s_at(i + 1), e_at(i)), (s_at(i), e_at(i)), (e_at(i), s_at(i))])
                    v = (struct.unpack(">H", b[y:y + 2])[0] + r.choice([-1, 0, 1])) & 0xffff
                    b[x:x + 2] = struct.pack(">H", v)
                elif k == 7:
                    x, y = r.choice([(e_at(i), e_at(i + 1)), (s_at(i), s_at(i + 1))])
                    b[x:x + 2], b[y:y + 2] = b[y:y + 2], b[x:x + 2]
                else:
                    x = r.choice([e_at(i), s_at(i)])
                    v = (struct.unpack(">H", b[x:x + 2])[0] + r.choice([-1, 1, 2, -2, 0x100])) & 0xffff
                    b[x:x + 2] = struct.pack(">H", v)
        return bytes(b)
    k = k % 6
    if k == 0:
        b = b[: r.randrange(0, len(b))]
    elif k == 1 and len(b) > 20:
        for _ in range(r.randrange(1, 4)):
            b[r.randrange(len(b))] = r.choice([0, 1, 0xff, 0x7f, 0x80])
    elif k == 2 and len(b) > 20:
        i = r.randrange(4, min(len(b) - 1, 64)); b[i] ^= 1 << r.randrange(8)
    elif k == 3 and len(b) > 30:
        # counts / lengths / offsets in the first subtable header
        o = struct.unpack(">I", b[8:12])[0]
        if o + 8 < len(b):
            j = o + r.choice([2, 3, 6, 7]); b[j] = r.choice([0, 1, 0xff, b[j] + 1 & 255, b[j] - 1 & 255])
    elif k == 4:
        b[2:4] = struct.pack(">H", r.choice([0, 1, 2, 3, 0xffff]))
    else:
        b += bytes(r.randrange(256) for _ in range(r.randrange(1, 9)))
    return bytes(b)


def run(ctx):
    res = lib.Result()
    r = lib.rng("c13")
    info = {}
    lines = []
    # (charis_r_gr has thousands of format-12 groups and the direct lookup scans them linearly for each of 0x110000 code points: thorough tier only)
    for f in ["Padauk.ttf", "Scheherazadegr.ttf", "AwamiNastaliq-Regular.ttf", "general.ttf", "MagyarLinLibertineG.ttf", "Annapurnarc2.ttf", "charis_r_gr.ttf"][: (4 if ctx.quick() else 7)]:
        t = sfnt.read_tables(lib.REPO / "tests" / "fonts" / f)["cmap"]
        l = "cmap " + t.hex()
        lines.append(l)
        info[l] = ("shipped", None, None)
    for i in range(45 if ctx.quick() else 3000):
        t, segs, groups = gen_wf(r, consistent=(i % 3 != 0))
        l = "cmap " + t.hex()
        lines.append(l)
        info[l] = ("wf-consistent" if i % 3 != 0 else "wf-free", segs, groups)
    wf_tables = [l for l in lines if info[l][0].startswith("wf")]
    for l in wf_tables[: (45 if ctx.quick() else 3000)]:
        m = "cmap " + (mutate(r, bytes.fromhex(l.split()[1])).hex() or "-")
        if m not in info:
            lines.append(m)
            info[m] = ("mutated", None, None)

    def holds(line, out):
        kind, segs, groups = info[line]
        if out.startswith("CRASH"):
            return False, "the implementation crashed"
        f = dict(x.split("=") for x in out.split())
        if "fault" in (f.get("d"), f.get("c")):
            return False, "out-of-bounds access in cmap parsing or lookup"
        if (kind != "mutated" or f.get("sorted") == "1") and f.get("d") not in ("noface",) and f.get("c") not in ("noface",) and f.get("diff") != "none":
            return False, "direct and cached lookup disagree at U+%s%s" % (f.get("diff").upper(), " on a table with sorted, disjoint ranges (the hypothesis of cached_lookup_is_direct_lookup)" if f.get("sorted") == "1" else "")
        if kind != "mutated" and f.get("d", "").isdigit() and f.get("sorted") != "1":
            return False, "a shipped or well-formed synthesised table does not meet the hypothesis of cached_lookup_is_direct_lookup (sorted=%s): the theorem would say nothing about it" % f.get("sorted")
        if kind.startswith("wf"):
            want = str(cmapgen.digest_of(cmapgen.ref_pairs(segs, groups)))
            if f.get("d") != want:
                return False, "the direct lookup does not give the glyphs the OpenType rules assign (digest over all code points differs)"
            if f.get("c") != want:
                return False, "the cached lookup does not give the glyphs the OpenType rules assign (digest over all code points differs)"
        return True, ""
    heavy = [l for l in lines if len(l) > 40000 and info[l][0] == "shipped"]
    lines = [l for l in lines if l not in heavy]
    if heavy:
        # the model's direct lookup needs minutes for a table with thousands of groups: its own stage with a long per-line watchdog
        lib.correspond(ctx, res, "h_cmap", "cmap", heavy, holds, exe_args=[BASE], per_chunk=1, line_timeout=1500,
                       rule="cmap: the largest shipped cmap (thousands of format-12 groups), all 0x110000 code points by both lookup paths")
        res.evaluations += 0x110000 * len(heavy) - len(heavy)
    lib.correspond(ctx, res, "h_cmap", "cmap", lines, holds, classify=lambda l, o: "%s -> %s" % (info[l][0], " ".join(("d=ok" if x[2:].isdigit() else x) if x.startswith("d=") else ("c=ok" if x[2:].isdigit() else x) if x.startswith("c=") else x if x.startswith("sorted=") else ("diff" if x != "diff=none" else "nodiff") for x in o.split())),
                   exe_args=[BASE], per_chunk=8,
                   rule="cmap: shipped fonts' cmap tables; synthesised format-4 (1..60 segments, idDelta incl. wrapping, idRangeOffset arrays with zero entries, adjacent/one-apart boundaries, block-boundary code points) with or without a format-12 subtable (consistent with the BMP or free); mutated tables. Every line compares all 0x110000 code points by both lookup paths")
    res.evaluations += 0x110000 * len(lines) - len(lines)
    return res.as_dict()


def matches_known(k, f):
    return False


def replay(ctx, obj):
    return lib.replay_lines(ctx, obj, {"cmap": lambda l, o: ((False, "fault/diff") if ("fault" in o or o.startswith("CRASH") or " diff=none" not in o) else (None, ""))})

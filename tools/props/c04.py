"""C04 — glyph attachments always form a forest over the segment's own slots (DESIGN.md §0.2, §6; the forest invariant is proved for the whole modelled pipeline)."""
import lib
from props import heapcheck, heapspec, segspec
import fontsynth

GEN_MODULES = ["Vm"]
ASSUMPTIONS = ["theorems: the forest invariant (child chains enumerate exactly the attached slots, no parent cycles, parents real and allocated) for every opcode, action program, garbage collection and the whole modelled pipeline (either direction, no bidi pass); frame and guard theorems; "
               "also proved: the parent of a stream slot is a stream slot; not proved: the base chain of linkClusters (not modelled), right-to-left - decided by the correspondence and the end-to-end predicate",
               "the loader's acceptance tests are not modelled: the component harness only runs programs the real loader accepted",
               "scalar opcodes inside action code use the regenerated Gen.Vm bodies"]
TRUSTED = ["hand-written model GrVerif/Model/{Seg,Action}.lean (tied by correspondence on action programs)", "tools/fontsynth.py (font synthesiser) and tools/heapgen.py"]


def pred_heap(f, s, n):
    return heapspec.c04_forest(f, s)


def pred_seg(d, t, meta):
    ok, why = segspec.c04(d)
    return ok, why, "c04"


def run(ctx):
    res = lib.Result()
    q = ctx.quick()
    heapcheck.component(ctx, res, pred_heap, 3000 if q else 60000, "predicate: parent/child/sibling pointers stay inside the stream, no cycle, child chains = attached slots")
    heapcheck.end_to_end(ctx, res, pred_seg, 150 if q else 2500, 6 if q else 12, 10 if q else len(heapcheck.WORDS))
    heapcheck.shape_stage(ctx, res, 120 if q else 3000, 6 if q else 12)
    # attach / re-attach / put_copy histories across passes (stale parent pointers of temporary copies)
    heapcheck.shape_stage(ctx, res, 150 if q else 4000, 4, fontgen=fontsynth.gen_reattach_font, textgen=fontsynth.gen_reattach_text, pred=pred_seg,
                          label="reattach: %d synthesised fonts of 2..3 positioning passes whose rules attach slots to each other, re-attach them and put_copy from references that assoc turned into temporary copies x %d texts")
    return res.as_dict()


def replay(ctx, obj):
    if obj.get("mode") == "shape":
        return heapcheck.replay_shape(obj)
    if obj.get("mode") == "e2e":
        return heapcheck.replay_e2e(obj, pred_seg)

    def holds(l, i):
        if "status=" not in i:
            return (False, "crash") if i.startswith(("CRASH", "fault")) else (None, "")
        f, s = heapspec.parse(i)
        return pred_heap(f, s, int(l.split()[3]))
    return lib.replay_lines(ctx, obj, {"heap": holds})

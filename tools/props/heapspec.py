"""Predicates of C03 / C04 / C05 on the heap dumps of h_heap (component level) - evaluated on the implementation's output."""


def parse(out):
    f = {}
    slots = []
    for tok in out.split():
        if tok.startswith("s:"):
            slots.append([int(x) for x in tok[2:].split(",")])
        elif "=" in tok:
            k, v = tok.split("=", 1)
            f[k] = v
    return f, slots     # slot: gid, before, after, original, prev, parent, child, sibling, deleted


def c03_stream(f, slots):
    """walk from first visits exactly n slots, ends at last, prev is the inverse of next"""
    n = int(f["n"])
    if int(f["walk"]) != n:
        return False, "following next from first visits %s slots, the segment says %d" % (f["walk"], n)
    if n and int(f["last"]) != n - 1:
        return False, "the walk does not end at the segment's last slot (last is at position %s of %d)" % (f["last"], n)
    if n == 0 and int(f["last"]) != -1:
        return False, "empty stream but last is set"
    for i, s in enumerate(slots):
        if s[4] != i - 1:
            return False, "slot %d: prev is position %d, expected %d" % (i, s[4], i - 1)
        if s[8]:
            return False, "slot %d in the stream is marked deleted" % i
    return True, ""


def c04_forest(f, slots):
    n = len(slots)
    for i, s in enumerate(slots):
        for name, v in (("parent", s[5]), ("first child", s[6]), ("next sibling", s[7])):
            if v == -2:
                return False, "slot %d: %s is a slot that is not in the segment's stream" % (i, name)
    for i in range(n):
        seen = set()
        p = i
        while p != -1:
            if p in seen:
                return False, "attachment cycle through slot %d" % i
            seen.add(p)
            p = slots[p][5]
    # every attached slot occurs exactly once in its parent's child chain; chain members name the parent
    for p in range(n):
        chain = []
        c = slots[p][6]
        guard = 0
        while c != -1 and guard <= n:
            chain.append(c)
            c = slots[c][7]
            guard += 1
        if guard > n:
            return False, "child chain of slot %d does not terminate" % p
        if len(set(chain)) != len(chain):
            return False, "child chain of slot %d repeats a slot" % p
        for c in chain:
            if slots[c][5] != p:
                return False, "slot %d is in the child chain of %d but names %d as its parent" % (c, p, slots[c][5])
        kids = [i for i in range(n) if slots[i][5] == p]
        if sorted(kids) != sorted(chain):
            return False, "children of slot %d are %s but its child chain is %s" % (p, kids, chain)
    return True, ""


def c05_assoc(f, slots, nchars):
    for i, s in enumerate(slots):
        for name, v in (("before", s[1]), ("after", s[2]), ("original", s[3])):
            if not (0 <= v < nchars):
                return False, "slot %d: %s = %d is not a character index in [0,%d)" % (i, name, v, nchars)
    return True, ""

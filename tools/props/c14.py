"""C14 — compressed tables are transparent; the LZ4 decoder is exact and bounded (DESIGN.md §6 C14)."""
import struct
import lib
import lz4gen
import sfnt

GEN_MODULES = ["Lz4"]
ASSUMPTIONS = ["sizeof(unsigned long) = 8 (LP64): word copies move 8 bytes", "pointer wrap-around in read_sequence (`src < literal`) is not modelled",
               "a `fault` on the implementation side is an AddressSanitizer report on exact-size heap input/output buffers",
               "reference decoder = liblz4 1.9.4 LZ4_decompress_safe, run in the same harness process"]
TRUSTED = ["hand-written model GrVerif/Model/Lz4.lean (tied by correspondence incl. the bytes left in the output buffer on failure; constants regenerated in Gen.Lz4)",
           "liblz4 as the independent reference for the strict-reference clause; tools/lz4gen.py ref_decode cross-checked against it"]
FONTS = ["Awami_test.ttf", "Padauk.ttf", "Scheherazadegr.ttf", "charis_r_gr.ttf", "general.ttf"]


def plaintexts(ctx, r):
    P = []
    for f in FONTS:
        t = sfnt.read_tables(lib.REPO / "tests" / "fonts" / f)
        for tag in ("Silf", "Glat", "Gloc", "Feat"):
            if tag in t:
                d = t[tag]
                for _ in range(6 if ctx.quick() else 60):
                    n = r.choice([13, 24, 40, 64, 100, 257, 600, 1500])
                    o = r.randrange(0, max(1, len(d) - n))
                    P.append(list(d[o:o + n]))
    for _ in range(150 if ctx.quick() else 3000):
        n = r.choice([13, 14, 20, 33, 64, 128, 300, 1000])
        k = r.random()
        if k < 0.3:
            P.append([r.randrange(256) for _ in range(n)])
        elif k < 0.6:
            per = [r.randrange(256) for _ in range(r.randrange(1, 12))]
            P.append([per[i % len(per)] for i in range(n)])
        else:
            a = [r.choice([0, 0, 1, 255, r.randrange(256)]) for _ in range(n)]
            P.append(a)
    return P


def mutate(r, blk):
    b = list(blk)
    k = r.randrange(8)
    if k == 0 and b:
        i = r.randrange(len(b)); b[i] ^= 1 << r.randrange(8)
    elif k == 1 and len(b) > 1:
        b = b[:r.randrange(1, len(b))]
    elif k == 2:
        b += [r.randrange(256) for _ in range(r.randrange(1, 9))]
    elif k == 3 and b:
        b[r.randrange(len(b))] = r.choice([0, 0xff, 0xf0, 0x0f, 0x10, 0x01])
    elif k == 4 and len(b) > 4:
        i = r.randrange(len(b) - 2); b[i:i + 2] = [r.choice([0, 1, 8, 9, 255]), r.choice([0, 0, 1, 255])]
    elif k == 5 and b:
        b[0] = r.choice([0xff, 0xf0, 0x0f, 0x00, 0x1f, 0xf1])
    elif k == 6 and len(b) > 3:
        i = r.randrange(len(b)); b[i:i] = [255] * r.randrange(1, 6)
    else:
        b = [r.randrange(256) for _ in range(r.randrange(0, 40))]
    return b


def gen(ctx):
    r = lib.rng("c14")
    cases = []          # (kind, src, outsize, expected plaintext or None)
    styles = ["greedy", "random", "overlap", "literal", "longlit"]
    for data in plaintexts(ctx, r):
        for st in styles if not ctx.quick() else r.sample(styles, 3):
            blk = lz4gen.encode(data, r, st)
            cases.append(("valid-" + st, blk, len(data), data))
            for _ in range(2):
                m = mutate(r, blk)
                cases.append(("mutated", m, len(data) + r.choice([0, 0, 0, 1, -1, 8, -8, 100]), None))
            cases.append(("valid-othersize", blk, max(0, len(data) + r.choice([-1, 1, 7, 64])), None))
    for _ in range(2000 if ctx.quick() else 60000):
        n = r.randrange(0, 48)
        cases.append(("arbitrary", [r.choice([0, 0x10, 0x11, 0xf0, 0x0f, 0xff, 1, r.randrange(256)]) for _ in range(n)], r.randrange(0, 80), None))
    return cases


def wrap_block(rem_wanted, dist=9):
    """A block whose second match has a length field that wraps the decoder's 32-bit accumulator to exactly 0
    (16.8 MB of 0xFF extension bytes), met when `rem_wanted` bytes of output space remain."""
    ext2 = 16843008 + 1
    ext1 = 66311
    for _ in range(6):
        in_size = (1 + (1 if dist >= 15 else 0) + dist + 2 + ext1) + (1 + 2 + ext2) + 6
        out_size = in_size + 64
        L = out_size - dist - rem_wanted
        nff, last = divmod(L - 19, 255)
        if nff + 1 == ext1:
            break
        ext1 = nff + 1
    b = bytearray([(min(dist, 15) << 4) | 0x0F]) + (bytes([dist - 15]) if dist >= 15 else b"") + bytes((65 + i) % 256 for i in range(dist)) + bytes([dist, 0]) + b"\xff" * nff + bytes([last])
    b += bytes([0x0F, dist, 0]) + b"\xff" * 16843008 + bytes([0xED]) + bytes([0x50]) + b"zzzzz"
    return bytes(b), out_size


def zero_offset(b):
    """does the sequence structure of the block contain a match offset of 0?"""
    s = 0
    try:
        while True:
            tok = b[s]; s += 1
            ll = tok >> 4
            if ll == 15:
                while True:
                    x = b[s]; s += 1; ll += x
                    if x != 255:
                        break
            s += ll
            if s >= len(b):
                return False
            d = b[s] | b[s + 1] << 8; s += 2
            if d == 0:
                return True
            ml = tok & 15
            if ml == 15:
                while True:
                    x = b[s]; s += 1; ml += x
                    if x != 255:
                        break
    except IndexError:
        return False


def wrap_accept_blocks():
    """Blocks whose length fields do not fit 32 bits and wrap to a small *plausible* value (found through the hypothesis lz4_sound first
    needed: 'no length accumulator wraps'): no decoder of the block format accepts them, a decoder with wrapping accumulators decodes
    them to a few bytes."""
    lit = bytes([0xF0]) + b"\xff" * 16843009 + bytes([0]) + bytes(range(65, 79))                   # literal length 2^32 + 14 -> 14
    mat = bytes([0x4F]) + b"abcd" + bytes([4, 0]) + b"\xff" * 16843008 + bytes([0xF5]) + bytes([0x50]) + b"zzzzz"   # match length 2^32 + 8 -> 8
    return [("lit", lit, len(lit) + 64), ("mat", mat, len(mat) + 64)]


def run_wrap(ctx, res):
    """Length-accumulator wrap-around (found by the in-bounds proof): inputs too large for a hex line go through files."""
    import tempfile, os, shutil
    tmp = tempfile.mkdtemp(prefix="grverif-c14-", dir="/var/tmp")
    try:
        lines = []
        for rem, dist in ((5, 9), (6, 9), (7, 12), (8, 9), (40, 9), (6, 8)) if ctx.quick() else ((5, 9), (6, 9), (7, 9), (5, 12), (6, 20), (7, 200), (8, 9), (9, 9), (40, 9), (6, 8), (6, 1)):
            blk, osz = wrap_block(rem, dist)
            path = os.path.join(tmp, "wrap-%d-%d.bin" % (rem, dist))
            open(path, "wb").write(blk)
            lines.append("lz4file %s %d aa" % (path, osz))
        for name, blk, osz in wrap_accept_blocks():
            path = os.path.join(tmp, "wrap-%s-0.bin" % name)
            open(path, "wb").write(blk)
            lines.append("lz4file %s %d aa" % (path, osz))
        exe = lib.build_harness("h_lz4", libs=["-llz4"])
        refs = dict(zip(lines, lib.run_lines([exe], ["lz4reffile %s %s" % (l.split()[1], l.split()[2]) for l in lines], per_chunk=1)))

        def holds(line, out):
            if out.startswith("CRASH"):
                return False, "the implementation crashed"
            if out == "fault":
                return False, "wrote outside the announced output size (match length field wrapping the 32-bit accumulator to 0; input: wrap_block(%s) of tools/props/c14.py)" % line.split("wrap-")[1].split(".bin")[0]
            if not out.startswith("ret=-1") and refs.get(line) == "ref=-1":
                return False, "accepted a block the reference decoder (liblz4) rejects: a length field that does not fit 32 bits wrapped to a small value (input: %s of tools/props/c14.py)" % ("wrap_accept_blocks()" if line.split("wrap-")[1][0] in "lm" else "wrap_block(%s)" % line.split("wrap-")[1].split(".bin")[0])
            return True, ""
        lib.correspond(ctx, res, "h_lz4", "lz4io", lines, holds, classify=lambda l, o: "wrap -> " + o.split()[0].split("=")[0] + ("=-1" if o.startswith("ret=-1") else ""),
                       rule="lz4file: 16.9 MB blocks whose match-length extension wraps the u32 accumulator to 0 with 5..40 bytes of output space left", per_chunk=1)
    finally:
        shutil.rmtree(tmp, ignore_errors=True)


def run(ctx):
    res = lib.Result()
    run_wrap(ctx, res)
    cases = gen(ctx)
    exe = lib.build_harness("h_lz4", libs=["-llz4"])
    reflines = ["lz4ref %s %d" % (lib.hexs(s), max(n, 0)) for _, s, n, _ in cases]
    refs = lib.run_lines([exe], reflines)
    lines = ["lz4 %s %d aa" % (lib.hexs(s), max(n, 0)) for _, s, n, _ in cases]
    info = {}
    pyref_mismatch = 0
    for l, (kind, s, n, data), ref in zip(lines, cases, refs):
        info[l] = (kind, s, max(n, 0), data, ref)
        pr = lz4gen.ref_decode(s, max(n, 0))
        lr = None if ref == "ref=-1" or not ref.startswith("ref=") else list(bytes.fromhex(ref.split("out=")[1])) if not ref.endswith("out=-") else []
        if pr != lr:
            pyref_mismatch += 1
    # the Lean reference decoder (Spec/Lz4Ref.lean, what lz4_sound is stated against) on the same blocks
    specs = lib.run_lines([lib.driver_path(), "lz4"], ["lz4spec %s" % (lib.hexs(s) or "-") for _, s, n, _ in cases]) if ctx.model_ok else [None] * len(cases)
    spec_of = {}
    spec_mismatch = 0
    for l, (kind, s, n, data), ref, sp in zip(lines, cases, refs, specs):
        so = None if sp is None or not sp.startswith("spec=") or sp == "spec=-1" else ([] if sp.endswith("out=-") else list(bytes.fromhex(sp.split("out=")[1])))
        spec_of[l] = (sp, so)
        lr = None if ref == "ref=-1" or not ref.startswith("ref=") else list(bytes.fromhex(ref.split("out=")[1])) if not ref.endswith("out=-") else []
        if sp is not None and lr is not None and so != lr and not (so is None and zero_offset(s)):
            spec_mismatch += 1
    res.extra["spec_validation"] = {"python_ref_vs_liblz4_mismatches": pyref_mismatch, "lean_reference_vs_liblz4_mismatches": spec_mismatch,
                                    "lean_reference_accepts": sum(1 for v in spec_of.values() if v[1] is not None), "liblz4_accepts": sum(1 for r_ in refs if r_ != "ref=-1"), "cases": len(cases)}

    def holds(line, out):
        kind, s, n, data, ref = info[line]
        if out.startswith("CRASH"):
            return False, "the implementation crashed"
        if out == "fault":
            return False, "read outside the input or wrote outside the announced output size"
        ret = int(out.split()[0][4:])
        buf = out.split("out=")[1]
        got = [] if buf == "-" else list(bytes.fromhex(buf))
        if ret >= 0:
            if ret > n:
                return False, "returned more bytes than the output size"
            if ref == "ref=-1":
                return False, "accepted a block the reference decoder (liblz4) rejects"
            want = ref.split("out=")[1]
            want = [] if want == "-" else list(bytes.fromhex(want))
            if got[:ret] != want:
                return False, "produced bytes differ from the reference decoder's"
            sp, so = spec_of.get(line, (None, None))
            if sp is not None and so != got[:ret]:
                return False, "lz4_sound fails on the implementation: the decoder returned %d bytes but the reference decoder of the block format (Spec/Lz4Ref.lean) %s" % (ret, "rejects the block" if so is None else "decodes it to other bytes")
        sp, so = spec_of.get(line, (None, None))
        if sp is not None and ref != "ref=-1" and ref.startswith("ref="):
            want = ref.split("out=")[1]
            want = [] if want == "-" else list(bytes.fromhex(want))
            # liblz4 does not test the offset for 0 ("0 is an invalid offset value" in the format description): such blocks it decodes, the
            # format - and Spec/Lz4Ref.lean, and graphite - reject them
            if so != want and not (so is None and zero_offset(s)):
                return False, "the Lean reference decoder (Spec/Lz4Ref.lean) disagrees with liblz4 on a block liblz4 accepts: the specification lz4_sound is stated against is not the block format"
        if data is not None and len(s) < len(data) and len(s) >= 13:
            if ret != len(data) or got != data:
                return False, "a valid block shorter than its plaintext did not decode to the plaintext"
            # the generated valid blocks must be blocks lz4_complete speaks about: the reference decodes them to the plaintext and
            # they end with at least five literals
            sp, so = spec_of.get(line, (None, None))
            if sp is not None:
                fin = sp.split("final=")[1].split()[0] if "final=" in sp else "-"
                if so != list(data) or not fin.isdigit() or int(fin) < 5:
                    return False, "a generated valid block does not meet the hypotheses of lz4_complete (reference decoding = plaintext, at least five final literals): the theorem would say nothing about it"
        return True, ""

    def classify(l, o):
        kind, s, n, data, ref = info[l]
        return "%s -> %s (ref %s)" % (kind, "fault" if o == "fault" else ("ok" if not o.startswith("ret=-1") else "-1"), "ok" if ref != "ref=-1" else "-1")
    lib.correspond(ctx, res, "h_lz4", "lz4", lines, holds, classify=classify,
                   rule="lz4: valid blocks from a randomised encoder (greedy/random/overlap/literal/long-literal parses) over slices of shipped Silf/Glat/Gloc/Feat tables and synthetic data, mutations (bit flips, truncation, appended bytes, patched offsets/lengths, length-extension runs), other output sizes, arbitrary bytes; compared: return value and the whole output buffer",
                   per_chunk=100)
    # table wrapper
    r = lib.rng("c14tbl")
    T = []
    tinfo = {}
    for data in plaintexts(ctx, r)[: (150 if ctx.quick() else 2000)]:
        if len(data) < 16:
            continue
        ver = r.choice([0x00050000, 0x00050001, 0x00030000, 0x00040000, 0x00060000])
        data = list(struct.pack(">I", ver)) + data[4:]
        blk = lz4gen.encode(data, r, r.choice(["greedy", "random", "overlap"]))
        for scheme, size, vthr in [(1, len(data), 0x00050000), (1, len(data), 0x00030000), (0, len(data), 0x00050000), (r.randrange(2, 32), len(data), 0x00050000),
                                   (1, len(data) + r.choice([-1, 1]), 0x00050000), (1, r.choice([0, 3, 4]), 0x00050000)]:
            hdr = struct.pack(">II", ver, (scheme << 27) | (size & 0x07ffffff))
            t = list(hdr) + blk
            l = "tbl %s %08x 55" % (lib.hexs(t), vthr)
            T.append(l)
            tinfo[l] = (ver, scheme, size, vthr, data, blk)
        for _ in range(2):
            t = list(struct.pack(">II", ver, (1 << 27) | len(data))) + mutate(r, blk)
            l = "tbl %s %08x 55" % (lib.hexs(t[:r.choice([len(t), len(t), 19, 20, 8, 4, 3])]), 0x00050000)
            T.append(l)
            tinfo[l] = (ver, 1, len(data), 0x00050000, None, None)

    def holds_tbl(line, out):
        ver, scheme, size, vthr, data, blk = tinfo[line]
        if out.startswith("CRASH"):
            return False, "the implementation crashed"
        if out.startswith("fault"):
            return False, "out-of-bounds access while loading a compressed table"
        if "BORROW" in out:
            return False, "table borrow discipline broken: " + out.split("BORROW")[1]
        if data is not None and ver >= vthr and scheme == 1 and size == len(data) and 13 <= len(blk) < len(data):
            if out != "replaced " + lib.hexs(data):
                return False, "a validly compressed table did not load as its plaintext"
        if out.startswith("replaced") and data is not None and out != "replaced " + lib.hexs(data):
            return False, "a compressed table loaded as something other than its plaintext"
        return True, ""
    lib.correspond(ctx, res, "h_lz4", "lz4", T, holds_tbl, classify=lambda l, o: "tbl -> " + o.split()[0],
                   rule="tbl: Face::Table constructor over a callback face: version/scheme/size header variants around validly compressed tables, mutated payloads, truncated tables",
                   per_chunk=50)
    return res.as_dict()


def matches_known(k, f):
    return k.get("id") == "S-5" and f.get("why", "").startswith("accepted a block the reference decoder")


def replay(ctx, obj):
    import tempfile, os, shutil, re
    items = [obj] if "line" in obj else obj.get("first", [])
    tmp = tempfile.mkdtemp(prefix="grverif-c14-", dir="/var/tmp")
    try:
        for it in items:
            m = re.search(r"wrap-(\d+)-(\d+)\.bin (\d+)", it["line"])
            if m:       # big inputs are regenerated, not stored
                blk, osz = wrap_block(int(m.group(1)), int(m.group(2)))
                path = os.path.join(tmp, "wrap-%s-%s.bin" % (m.group(1), m.group(2)))
                open(path, "wb").write(blk)
                it["line"] = "lz4file %s %d aa" % (path, osz)
        f = lambda l, o: ((False, "fault") if (o == "fault" or o.startswith("CRASH")) else (None, ""))
        return lib.replay_lines(ctx, obj, {"lz4": f, "lz4io": f})
    finally:
        shutil.rmtree(tmp, ignore_errors=True)

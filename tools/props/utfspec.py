"""Independent reference for UTF well-formedness used by the C11/C12/C05 predicates: Python's strict codecs
(an implementation of Unicode Table 3-7 / D91 / D90 that shares nothing with graphite or with the Lean model)."""
import struct

W = {8: 2, 16: 4, 32: 8}


def units_of(enc, hexs):
    if hexs == "-":
        return []
    w = W[enc]
    return [int(hexs[i:i + w], 16) for i in range(0, len(hexs), w)]


def hex_of(enc, units):
    if not units:
        return "-"
    return "".join("%0*x" % (W[enc], u) for u in units)


def raw(enc, units):
    if enc == 8:
        return bytes(units)
    if enc == 16:
        return struct.pack("<%dH" % len(units), *units)
    return struct.pack("<%dI" % len(units), *units)


CODEC = {8: "utf-8", 16: "utf-16-le", 32: "utf-32-le"}


def decode_one(enc, units, pos):
    """(scalar, length) of the well-formed sequence starting at units[pos], else None."""
    maxlen = {8: 4, 16: 2, 32: 1}[enc]
    for k in range(1, maxlen + 1):
        if pos + k > len(units):
            break
        try:
            s = raw(enc, units[pos:pos + k]).decode(CODEC[enc], "strict")
        except (UnicodeDecodeError, struct.error):
            continue
        if len(s) == 1:
            return ord(s), k
    return None


def well_formed_chars(enc, units):
    """(number of well-formed characters before the first ill-formed sequence, whole text well-formed?)"""
    pos = n = 0
    while pos < len(units):
        d = decode_one(enc, units, pos)
        if d is None:
            return n, False
        pos += d[1]
        n += 1
    return n, True


def before_nul(units):
    return units[:units.index(0)] if 0 in units else units


def truncated_tail(enc, units):
    """The buffer ends in a lead unit followed by fewer trailing units than it announces."""
    if enc == 32 or not units:
        return False
    if enc == 16:
        return 0xD800 <= units[-1] <= 0xDBFF
    for k in range(1, 4):          # k = number of units in the tail including the lead
        if k > len(units):
            break
        lead = units[-k]
        if lead >= 0xC0 and all(0x80 <= c <= 0xBF for c in units[len(units) - k + 1:]):
            need = 2 if lead < 0xE0 else 3 if lead < 0xF0 else 4
            return k < need
        if not (0x80 <= lead <= 0xBF):
            break
    return False


def parse_count(out):
    if not out.startswith("n="):
        return None
    a, b = out.split()
    n = int(a[2:])
    e = b[4:]
    return n, (None if e == "none" else int(e))


def count_holds(enc, units, out, bounded):
    """C11 clauses 1-4 for one call of gr_count_unicode_characters."""
    if out.startswith("CRASH"):
        return False, "the implementation crashed"
    if out == "fault":
        return False, "read outside [buffer_begin, buffer_end)" if bounded else "read beyond the terminating NUL"
    r = parse_count(out)
    if r is None:
        return False, "unparsable output"
    n, err = r
    pre = before_nul(units)
    nwf, wf = well_formed_chars(enc, pre)
    if wf and not (bounded and truncated_tail(enc, units)):
        if n != nwf or err is not None:
            return False, "well-formed text of %d characters: expected n=%d err=none" % (nwf, nwf)
    if not wf and err is None:
        return False, "ill-formed text but no error reported"
    if err is not None:
        if not (0 <= err < max(len(units), 1)) or (len(units) == 0):
            return False, "error pointer outside the buffer"
        if n > nwf:
            return False, "count %d exceeds the %d well-formed characters before the first ill-formed sequence" % (n, nwf)
    return True, ""


def text_holds(enc, units, nchars, out):
    """C12 + C05(first sentence) + C11(last clause) for the char-infos of one gr_make_seg call.
    `units` is all the memory the caller owns."""
    if out.startswith("CRASH"):
        return False, "the implementation crashed"
    if out == "fault":
        return False, "gr_make_seg read outside the caller's text buffer"
    if out == "null":
        return None, ""
    w = out.split()
    n = int(w[0][2:])
    cis = [(int(x.split(":")[0], 16), int(x.split(":")[1])) for x in w[1:]]
    if n != len(cis):
        return None, ""
    if n > nchars:
        return False, "%d char-infos for nChars=%d" % (n, nchars)
    pos = 0
    for idx, (usv, base) in enumerate(cis):
        if base != pos:
            return False, "char-info %d has base %d, expected %d" % (idx, base, pos)
        if pos >= len(units):
            return None, ""          # ran off the caller's memory without meeting a NUL: outside the contract
        d = decode_one(enc, units, pos)
        if d is not None:
            if d[0] == 0:
                return False, "a character was produced for the terminating NUL at unit %d" % pos
            if usv != d[0]:
                return False, "char-info at base %d is U+%04X, expected U+%04X" % (base, usv, d[0])
            pos += d[1]
        else:
            if usv != 0xFFFD:
                return False, "ill-formed sequence at base %d gave U+%04X, expected U+FFFD" % (base, usv)
            if idx + 1 < len(cis):
                step = cis[idx + 1][1] - base
                if step < 1:
                    return False, "char-info bases are not strictly increasing"
            else:
                step = 1
                while pos + step < len(units) and is_trailing(enc, units[pos + step]):
                    step += 1
                if n == nchars:
                    step = 1
            # no derailing: a skipped unit must be a trailing unit (it cannot start a character)
            for j in range(pos + 1, min(pos + step, len(units))):
                if not is_trailing(enc, units[j]):
                    return False, "the ill-formed sequence at unit %d swallowed unit %d, which is not a trailing unit" % (pos, j)
            pos += step
    if n < nchars:
        if pos >= len(units):
            return None, ""
        d = decode_one(enc, units, pos)
        if not (d is not None and d[0] == 0):
            return False, "stopped after %d characters at unit %d although nChars=%d and no NUL was met" % (n, pos, nchars)
    return True, ""


def is_trailing(enc, u):
    if enc == 8:
        return 0x80 <= u <= 0xBF
    if enc == 16:
        return 0xDC00 <= u <= 0xDFFF
    return False

"""Predicates of C03 / C04 / C05 on the public-API segment dump of h_seg (op D) - evaluated on the implementation's output."""
import math


def parse_dump(d):
    """-> dict(n, walk, last, adv, nc, slots[list of dict], chars[list of dict]) or None for 'noseg'/'noface'"""
    if not d.startswith("n="):
        return None
    f = {}
    slots, chars = [], []
    for tok in d.split():
        if tok.startswith("s:"):
            a = tok[2:].split(",")
            slots.append(dict(gid=int(a[0]), index=int(a[1]), before=int(a[2]), after=int(a[3]), original=int(a[4]), prev=int(a[5]), parent=int(a[6]),
                              child=int(a[7]), sibling=int(a[8]), ox=a[9], oy=a[10], ax=a[11], ay=a[12], insert=int(a[13])))
        elif tok.startswith("c:"):
            a = tok[2:].split(",")
            chars.append(dict(ch=int(a[0], 16), base=int(a[1]), before=int(a[2]), after=int(a[3]), bw=int(a[4])))
        elif "=" in tok:
            k, v = tok.split("=", 1)
            f[k] = v
    return dict(n=int(f["n"]), walk=int(f["walk"]), last=int(f["last"]), adv=f["adv"].split(","), nc=int(f["nc"]), slots=slots, chars=chars)


def fin(x):
    return x not in ("nan", "inf", "-inf")


def c03(d, nglyphs=None):
    n = d["n"]
    s = d["slots"]
    if d["walk"] != n:
        return False, "following next from first visits %d slots, gr_seg_n_slots says %d" % (d["walk"], n)
    if (n and d["last"] != n - 1) or (n == 0 and d["last"] != -1):
        return False, "the walk does not end at gr_seg_last_slot (last is at position %d of %d)" % (d["last"], n)
    for i, x in enumerate(s):
        if x["prev"] != i - 1:
            return False, "slot %d: prev_in_segment is position %d, expected %d" % (i, x["prev"], i - 1)
    if sorted(x["index"] for x in s) != list(range(n)):
        return False, "slot indices %s are not a permutation of 0..%d" % ([x["index"] for x in s], n - 1)
    for i, x in enumerate(s):
        if not (fin(x["ox"]) and fin(x["oy"]) and fin(x["ax"]) and fin(x["ay"])):
            return False, "slot %d has a non-finite origin or advance" % i
        if nglyphs is not None and x["gid"] >= nglyphs:
            return False, "slot %d: gid %d >= gr_face_n_glyphs %d" % (i, x["gid"], nglyphs)
    if not (fin(d["adv"][0]) and fin(d["adv"][1])):
        return False, "segment advance is not finite"
    return True, ""


def c04(d):
    s = d["slots"]
    n = len(s)
    for i, x in enumerate(s):
        for name in ("parent", "child", "sibling"):
            if x[name] == -2:
                return False, "slot %d: %s is a slot that is not in the segment" % (i, name)
    for i in range(n):
        seen = set()
        p = i
        while p != -1:
            if p in seen:
                return False, "attached_to cycle through slot %d" % i
            seen.add(p)
            p = s[p]["parent"]
    for p in range(n):
        chain = []
        c = s[p]["child"]
        while c != -1 and len(chain) <= n:
            chain.append(c)
            c = s[c]["sibling"]
        if len(chain) > n or len(set(chain)) != len(chain):
            return False, "attachment chain of slot %d repeats a slot or does not end: %s" % (p, chain[:12])
        for c in chain:
            if s[c]["parent"] != p:
                return False, "slot %d is in the attachment chain of %d but its attached_to is %d" % (c, p, s[c]["parent"])
        kids = [i for i in range(n) if s[i]["parent"] == p]
        if sorted(kids) != sorted(chain):
            return False, "slots attached to %d are %s but its attachment chain is %s" % (p, kids, chain)
    bases = [i for i in range(n) if s[i]["parent"] == -1]
    if bases:
        # one chain through next_sibling_attachment holding every base exactly once
        nxt = {b: s[b]["sibling"] for b in bases}
        heads = [b for b in bases if b not in nxt.values()]
        if len(heads) != 1:
            return False, "the bases %s are not linked into one chain (chain heads: %s)" % (bases, heads)
        chain = []
        c = heads[0]
        while c != -1 and len(chain) <= n:
            chain.append(c)
            c = s[c]["sibling"]
        if sorted(chain) != bases or len(chain) != len(bases):
            return False, "base chain %s does not contain each base %s exactly once" % (chain[:12], bases)
    return True, ""


def c05(d, chars, bases):
    """chars: expected decoded characters (U+FFFD for ill-formed), bases: expected code-unit offsets"""
    n = len(chars)
    if d["nc"] != n or len(d["chars"]) != n:
        return False, "%d char-infos for %d characters" % (d["nc"], n)
    for i, c in enumerate(d["chars"]):
        if c["ch"] != chars[i]:
            return False, "char-info %d holds U+%04X, input character is U+%04X" % (i, c["ch"], chars[i])
        if c["base"] != bases[i]:
            return False, "char-info %d base %d, expected code-unit offset %d" % (i, c["base"], bases[i])
    s = d["slots"]
    for i, x in enumerate(s):
        for name in ("before", "after", "original"):
            if not (0 <= x[name] < n):
                return False, "slot %d: %s = %d is not a char-info index in [0,%d)" % (i, name, x[name], n)
    if s:
        for k in range(n):
            if not any(x["before"] <= k <= x["after"] for x in s):
                return False, "character %d lies in no slot's [before,after] range" % k
        for i, c in enumerate(d["chars"]):
            if not (0 <= c["before"] < len(s) and 0 <= c["after"] < len(s)):
                return False, "char-info %d: before/after = %d/%d are not slot indices in [0,%d)" % (i, c["before"], c["after"], len(s))
    return True, ""

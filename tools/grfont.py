#!/usr/bin/env python3
"""Minimal Graphite font builder (written by the auditing sub-agent of the C02 round, adopted as a generator of fonts with
justification levels, collision attributes and Glat boxes, which tools/fontsynth.py does not write).

Takes an existing TrueType file (tests/fonts/small.ttf), replaces cmap / Silf /
Glat / Gloc / Feat / Sill with tables built from a small declarative description.
Only the standard library is used.
"""
import struct

# ---------------------------------------------------------------- opcodes
OPS = """NOP PUSH_BYTE PUSH_BYTEU PUSH_SHORT PUSH_SHORTU PUSH_LONG ADD SUB MUL DIV MIN MAX NEG TRUNC8 TRUNC16
COND AND OR NOT EQUAL NOT_EQ LESS GTR LESS_EQ GTR_EQ NEXT NEXT_N COPY_NEXT PUT_GLYPH_8BIT_OBS PUT_SUBS_8BIT_OBS
PUT_COPY INSERT DELETE ASSOC CNTXT_ITEM ATTR_SET ATTR_ADD ATTR_SUB ATTR_SET_SLOT IATTR_SET_SLOT PUSH_SLOT_ATTR
PUSH_GLYPH_ATTR_OBS PUSH_GLYPH_METRIC PUSH_FEAT PUSH_ATT_TO_GATTR_OBS PUSH_ATT_TO_GLYPH_METRIC PUSH_ISLOT_ATTR
PUSH_IGLYPH_ATTR POP_RET RET_ZERO RET_TRUE IATTR_SET IATTR_ADD IATTR_SUB PUSH_PROC_STATE PUSH_VERSION PUT_SUBS
PUT_SUBS2 PUT_SUBS3 PUT_GLYPH PUSH_GLYPH_ATTR PUSH_ATT_TO_GLYPH_ATTR BITOR BITAND BITNOT BITSET SET_FEAT""".split()
for _i, _n in enumerate(OPS):
    globals()[_n] = _i

# slot attribute codes (include/graphite2/Segment.h)
SLAT = """AdvX AdvY AttTo AttX AttY AttGpt AttXOff AttYOff AttWithX AttWithY WithGpt AttWithXOff AttWithYOff AttLevel
Break CompRef Dir Insert PosX PosY ShiftX ShiftY UserDefnV1 MeasureSol MeasureEol JStretch JShrink JStep JWeight JWidth
SegSplit30 SegSplit31 SegSplit32 SegSplit33 SegSplit34 SegSplit35 SegSplit36 SegSplit37 SegSplit38 SegSplit39
SegSplit40 SegSplit41 SegSplit42 SegSplit43 SegSplit44 SegSplit45 SegSplit46 SegSplit47 SegSplit48 SegSplit49
SegSplit50 SegSplit51 SegSplit52 SegSplit53 SegSplit54 UserDefn BidiLevel ColFlags ColLimitblx ColLimitbly ColLimittrx
ColLimittry ColShiftx ColShifty ColMargin ColMarginWt ColExclGlyph ColExclOffx ColExclOffy SeqClass SeqProxClass
SeqOrder SeqAboveXoff SeqAboveWt SeqBelowXlim SeqBelowWt SeqValignHt SeqValignWt""".split()
SL = {n: i for i, n in enumerate(SLAT)}
SL['SegSplit'] = 29 + 1


def s8(v):
    return v & 0xff


def code(*items):
    """flatten ints / lists into a bytes object"""
    out = []
    for it in items:
        if isinstance(it, (list, tuple)):
            out.extend(code(*it))
        elif isinstance(it, (bytes, bytearray)):
            out.extend(it)
        else:
            out.append(it & 0xff)
    return bytes(out)


# ---------------------------------------------------------------- sfnt
def read_sfnt(path):
    d = open(path, 'rb').read()
    n = struct.unpack('>H', d[4:6])[0]
    tabs = {}
    for i in range(n):
        t, c, o, l = struct.unpack('>4sLLL', d[12 + 16 * i:28 + 16 * i])
        tabs[t.decode('latin1')] = d[o:o + l]
    return d[:4], tabs


def checksum(b):
    b = b + b'\0' * (-len(b) % 4)
    return sum(struct.unpack('>%dL' % (len(b) // 4), b)) & 0xffffffff


def write_sfnt(path, ver, tabs):
    tags = sorted(tabs)
    n = len(tags)
    es = 0
    while (2 << es) <= n:
        es += 1
    sr = (1 << es) * 16
    hdr = ver + struct.pack('>HHHH', n, sr, es, n * 16 - sr)
    off = 12 + 16 * n
    direc = b''
    body = b''
    for t in tags:
        b = tabs[t]
        direc += struct.pack('>4sLLL', t.encode('latin1'), checksum(b), off + len(body), len(b))
        body += b + b'\0' * (-len(b) % 4)
    open(path, 'wb').write(hdr + direc + body)


def cmap_fmt4(mapping):
    """mapping: dict codepoint(<0xffff) -> gid; one segment per codepoint (simple)."""
    cps = sorted(mapping)
    segs = [(c, c, (mapping[c] - c) & 0xffff) for c in cps] + [(0xffff, 0xffff, 1)]
    n = len(segs)
    es = 0
    while (2 << es) <= n:
        es += 1
    sr = 2 * (1 << es)
    sub = struct.pack('>HHHHHHH', 4, 16 + 8 * n, 0, 2 * n, sr, es, 2 * n - sr)
    sub += b''.join(struct.pack('>H', s[1]) for s in segs) + b'\0\0'
    sub += b''.join(struct.pack('>H', s[0]) for s in segs)
    sub += b''.join(struct.pack('>H', s[2]) for s in segs)
    sub += b'\0\0' * n
    return struct.pack('>HHHHL', 0, 1, 3, 1, 12) + sub


# ---------------------------------------------------------------- Glat / Gloc
def glat_gloc(nglyphs, nattrs, attrs=None, version=1, boxes=None):
    """attrs: dict gid -> dict attr -> value (int16).  Every glyph gets at least attr 0.
    version 1: byte attNum/num runs; version 3: octabox header in front of every glyph
    (boxes: dict gid -> (bitmap, diag4bytes, [subbox 8 bytes]*n))."""
    attrs = attrs or {}
    glat = struct.pack('>L', version << 16)
    if version >= 3:
        glat += struct.pack('>L', 1)
    locs = []
    for g in range(nglyphs):
        locs.append(len(glat))
        a = dict(attrs.get(g, {}))
        if not a:
            a = {0: 0}
        if version >= 3:
            bm, dia, subs = (boxes or {}).get(g, (0, b'\0\xff\0\xff', []))
            glat += struct.pack('>H', bm) + dia + b''.join(subs)
        for k in sorted(a):
            if version == 1:
                glat += struct.pack('>BBh', k, 1, a[k])
            else:
                glat += struct.pack('>HHh', k, 1, a[k])
    locs.append(len(glat))
    gloc = struct.pack('>LHH', 0x10000, 0, nattrs) + b''.join(struct.pack('>H', l) for l in locs)
    return glat, gloc


# ---------------------------------------------------------------- Feat / Sill
def feat_table(feats):
    """feats: list of (id, [(value,label)...]); version 1 layout (16 bit ids)."""
    hdr = struct.pack('>LHHL', 0x10000, len(feats), 0, 0)
    recs = b''
    sets = b''
    base = 12 + 12 * len(feats)
    for fid, vals in feats:
        recs += struct.pack('>HHLHH', fid, len(vals), base + len(sets), 0, 256 + fid)
        for v, l in vals:
            sets += struct.pack('>hH', v, l)
    return hdr + recs + sets


# ---------------------------------------------------------------- Silf
class Rule:
    def __init__(self, sort, pre=0, action=b'', constraint=b''):
        self.sort, self.pre, self.action, self.constraint = sort, pre, bytes(action), bytes(constraint)


class Pass:
    def __init__(self, rules, ncols=1, ranges=None, nglyphs=None, maxloop=5, flags=0,
                 pass_constraint=b'', trans=None, nstates=None, ntrans=None, nsuccess=None,
                 success_rules=None, min_pre=None, max_pre=None, starts=None, colthresh=0):
        self.rules = rules
        self.ncols = ncols
        self.ranges = ranges          # list of (first,last,col)
        self.maxloop = maxloop
        self.flags = flags
        self.pass_constraint = bytes(pass_constraint)
        self.trans = trans            # list (per transitional state) of lists (per column)
        self.nstates, self.ntrans, self.nsuccess = nstates, ntrans, nsuccess
        self.success_rules = success_rules   # list (per success state) of rule index lists
        self.min_pre, self.max_pre, self.starts = min_pre, max_pre, starts
        self.colthresh = colthresh

    def linear(self, nglyphs):
        """default FSM: a single column holding every glyph; state k = k glyphs consumed (counted from
        max_pre slots before the cursor); rule r is reported in state max_pre - r.pre + r.sort."""
        rules = self.rules
        mp = max([r.pre for r in rules] or [0])
        if self.max_pre is None:
            self.max_pre = mp
        if self.min_pre is None:
            self.min_pre = 0
        L = max([self.max_pre - r.pre + r.sort for r in rules] or [1])
        if self.ranges is None:
            self.ranges = [(0, nglyphs - 1, 0)]
        if self.trans is None:
            self.nstates = L + 1
            self.ntrans = L
            self.nsuccess = L
            self.trans = [[k + 1] * self.ncols for k in range(L)]
            self.success_rules = [[] for _ in range(L)]
            for i, r in enumerate(rules):
                self.success_rules[self.max_pre - r.pre + r.sort - 1].append(i)
        if self.starts is None:
            # start state for context c (index max_pre - c): skip the missing pre-context slots
            self.starts = [self.max_pre - c for c in range(self.max_pre, self.min_pre - 1, -1)]

    def build(self, base, nglyphs):
        """base: offset of this pass from the start of the Silf subtable"""
        self.linear(nglyphs)
        rules = self.rules
        nr = len(rules)
        out = b''
        rng = b''.join(struct.pack('>HHH', *r) for r in self.ranges)
        rulemap = []
        orulemap = []
        for lst in self.success_rules:
            orulemap.append(len(rulemap))
            rulemap.extend(lst)
        orulemap.append(len(rulemap))
        body = rng
        body += b''.join(struct.pack('>H', x) for x in orulemap)
        body += b''.join(struct.pack('>H', x) for x in rulemap)
        body += struct.pack('>BB', self.min_pre, self.max_pre)
        body += b''.join(struct.pack('>H', x) for x in self.starts)
        body += b''.join(struct.pack('>H', r.sort) for r in rules)
        body += bytes(r.pre for r in rules)
        body += struct.pack('>BH', self.colthresh, len(self.pass_constraint))
        # constraints: offset 0 means "none", so a pad byte leads the block
        cons = b'\0'
        ocons = []
        for r in rules:
            if r.constraint:
                ocons.append(len(cons))
                cons += r.constraint
            else:
                ocons.append(0)
        ocons.append(len(cons))
        acts = b''
        oacts = []
        for r in rules:
            oacts.append(len(acts))
            acts += r.action
        oacts.append(len(acts))
        body += b''.join(struct.pack('>H', x) for x in ocons)
        body += b''.join(struct.pack('>H', x) for x in oacts)
        body += b''.join(struct.pack('>H', x) for row in self.trans for x in row)
        body += b'\0'
        pc = base + 40 + len(body)
        rc = pc + len(self.pass_constraint)
        ac = rc + len(cons)
        hdr = struct.pack('>BBBBHHLLLLHHHHHHHH', self.flags, self.maxloop, 64, 0, nr, 0,
                          pc, rc, ac, 0, self.nstates, self.ntrans, self.nsuccess, self.ncols,
                          len(self.ranges), 0, 0, 0)
        assert len(hdr) == 40
        return hdr + body + self.pass_constraint + cons + acts + b'\0\0\0\0'


def lookup_class(pairs):
    """pairs: list of (gid, index) -> uint16 list for a non-linear class, with a correct header"""
    pairs = sorted(pairs)
    n = len(pairs)
    es = 0
    while (2 << es) <= n:
        es += 1
    sr = 1 << es
    out = [n, sr, es, n - sr]
    for g, i in pairs:
        out += [g, i]
    return out


class Silf:
    def __init__(self, passes, nglyphs, classes=None, nlinear=None, isubst=0, ipos=None, ijust=None, ibidi=0xff,
                 flags=0, apseudo=0, abreak=0, abidi=0, amirror=0, apassbits=0, justs=None, nuser=0, maxcomp=0,
                 direction=1, acoll=0, alig=0, pseudos=None, version=3, lbgid=0, raw_classes=None):
        self.__dict__.update(locals())
        del self.__dict__['self']

    def classmap(self, version):
        classes = self.classes if self.classes is not None else [[0]]
        nlin = self.nlinear if self.nlinear is not None else len(classes)
        if self.raw_classes is not None:
            return self.raw_classes
        n = len(classes)
        fmt, sz = ('>L', 4) if version >= 4 else ('>H', 2)
        off0 = 4 + sz * (n + 1)
        data = []
        offs = []
        for c in classes:
            offs.append(off0 + 2 * len(data))
            data += list(c)
        offs.append(off0 + 2 * len(data))
        return struct.pack('>HH', n, nlin) + b''.join(struct.pack(fmt, o) for o in offs) + \
            b''.join(struct.pack('>H', x) for x in data)

    def build_sub(self, version):
        np = len(self.passes)
        ipos = np if self.ipos is None else self.ipos
        ijust = np if self.ijust is None else self.ijust
        justs = self.justs or []
        pseudos = self.pseudos or []
        h = b''
        if version >= 3:
            h += struct.pack('>LHH', 0, 0, 0)
        h += struct.pack('>HHH', self.nglyphs - 1, 0, 0)
        h += struct.pack('>BBBBBBBB', np, self.isubst, ipos, ijust, self.ibidi, self.flags, 64, 64)
        h += struct.pack('>BBBBB', self.apseudo, self.abreak, self.abidi, self.amirror, self.apassbits)
        h += struct.pack('>B', len(justs))
        for j in justs:
            h += bytes(list(j) + [0] * (8 - len(j)))
        h += struct.pack('>HBBBB', self.alig, self.nuser, self.maxcomp, self.direction, self.acoll)
        h += b'\0\0\0'          # reserved
        h += b'\0'              # numCritFeatures
        h += b'\0'              # reserved
        h += b'\0'              # numScriptTag
        h += struct.pack('>H', self.lbgid)
        opasses_at = len(h)
        h += b'\0' * (4 * (np + 1))
        h += struct.pack('>HHHH', len(pseudos), 0, 0, 0)
        for u, g in pseudos:
            h += struct.pack('>LH', u, g)
        h += self.classmap(version)
        offs = []
        body = b''
        for p in self.passes:
            offs.append(len(h) + len(body))
            body += p.build(len(h) + len(body), self.nglyphs)
        offs.append(len(h) + len(body))
        h = h[:opasses_at] + b''.join(struct.pack('>L', o) for o in offs) + h[opasses_at + 4 * (np + 1):]
        return h + body

    def build(self):
        v = self.version
        sub = self.build_sub(v)
        if v >= 3:
            hdr = struct.pack('>LLHHL', v << 16, 0x00050000, 1, 0, 16)
        else:
            hdr = struct.pack('>LHHL', v << 16, 1, 0, 12)
        return hdr + sub


def make_font(src, dst, silf, nattrs=16, gattrs=None, charmap=None, feats=None, glat_version=1, boxes=None,
              extra_glyph_attrs=0):
    """src: path of small.ttf; silf: Silf object (silf.nglyphs must be >= the font's glyph count)"""
    ver, tabs = read_sfnt(src)
    ng = silf.nglyphs
    glat, gloc = glat_gloc(ng, nattrs, gattrs, glat_version, boxes)
    tabs['Glat'] = glat
    tabs['Gloc'] = gloc
    tabs['Silf'] = silf.build()
    if charmap is None:
        charmap = {0x61 + i: 1 + i for i in range(min(ng - 1, 26))}
    tabs['cmap'] = cmap_fmt4(charmap)
    if feats is not None:
        tabs['Feat'] = feat_table(feats)
    write_sfnt(dst, ver, tabs)

"""From-scratch Graphite font synthesiser: a complete sfnt (head hhea hmtx maxp cmap Gloc Glat Feat Sill Silf) whose Silf
sub-table holds randomly generated passes: a trie FSM over glyph columns, rules with loader-valid random action
programs (tools/heapgen.py) and optional constraints.  The layouts are read off Silf::readGraphite, Pass::readPass,
Pass::readRules, Pass::readStates, Pass::readRanges (DESIGN.md appendix B).  Used by the end-to-end checks."""
import struct
import heapgen


def u8(x): return struct.pack('>B', x & 0xFF)
def u16(x): return struct.pack('>H', x & 0xFFFF)
def u32(x): return struct.pack('>I', x & 0xFFFFFFFF)


OP = dict(NOP=0, PUSH_BYTE=1, NEXT=25, PUT_COPY=30, INSERT=31, DELETE=32, ASSOC=33, CNTXT_ITEM=34, ATTR_SET=35, ATTR_ADD=36,
          PUSH_SLOT_ATTR=40, PUSH_GLYPH_ATTR_OBS=41, POP_RET=48, RET_ZERO=49, RET_TRUE=50, PUT_SUBS=56, PUT_GLYPH=59, IATTR_SET=51,
          EQUAL=19, PUSH_GLYPH_METRIC=42)

NG = 10            # glyphs 0..9 ; cmap 'a'..'i' -> 1..9
NATTR = 8


def head(upem=1000):
    return (u32(0x00010000) + u32(0x00010000) + u32(0) + u32(0x5F0F3CF5) + u16(0) + u16(upem) + b'\0' * 16
            + u16(0) + u16(0) + u16(1000) + u16(1000) + u16(0) + u16(8) + u16(2) + u16(0) + u16(0))


def hhea():
    return u32(0x00010000) + u16(800) + u16(-200) + u16(0) + u16(600) + u16(0) + u16(0) + u16(600) + u16(1) + u16(0) + u16(0) + b'\0' * 8 + u16(0) + u16(NG)


def hmtx():
    return b''.join(u16(500 + 10 * g) + u16(0) for g in range(NG))


def maxp():
    return u32(0x00010000) + u16(NG) + b'\0' * 26


def cmap():
    segc = 2
    f4 = (u16(4) + u16(16 + 8 * segc) + u16(0) + u16(segc * 2) + u16(4) + u16(1) + u16(0)
          + u16(0x69) + u16(0xFFFF) + u16(0) + u16(0x61) + u16(0xFFFF) + u16(1 - 0x61) + u16(1) + u16(0) + u16(0))
    return u16(0) + u16(1) + u16(3) + u16(1) + u32(12) + f4


def gloc_glat(r=None):
    glat = u32(0x00010000)
    locs = []
    for g in range(NG):
        locs.append(len(glat))
        # one run: attributes 0..3 (0 unused, 1 pseudo, 2 break weight, 3 bidi)
        glat += u8(0) + u8(4) + u16(0) + u16(0) + u16((r.choice([0, 0, 10, 20, -10, 30]) if r else 0)) + u16(0)
    locs.append(len(glat))
    gloc = u32(0x00010000) + u16(0) + u16(NATTR) + b''.join(u16(l) for l in locs)
    return gloc, glat


def feat(): return u32(0x00020000) + u16(0) + u16(0) + u32(0)
def sill(): return u32(0x00010000) + u16(0) + u16(0) + u16(0) + u16(0)


def mk_pass(rules, ncols, cols, trans, nstates, ntrans, nsucc, rulemap_lists, starts, minpre, maxpre, base, flags=0, maxloop=5, passcon=b''):
    """rules: list of (sortkey, precontext, constraint bytes, action bytes); cols: list of (first,last,col)"""
    nr = len(rules)
    orm = [0]
    rm = []
    for l in rulemap_lists:
        rm += l
        orm.append(len(rm))
    body = b''.join(u16(a) + u16(b) + u16(c) for a, b, c in cols)
    body += b''.join(u16(x) for x in orm) + b''.join(u16(x) for x in rm)
    body += u8(minpre) + u8(maxpre) + b''.join(u16(s) for s in starts)
    body += b''.join(u16(r[0]) for r in rules) + b''.join(u8(r[1]) for r in rules)
    body += u8(0) + u16(len(passcon))
    oc = []
    cc = b'\0' if any(r[2] for r in rules) else b''
    for r in rules:
        if r[2]:
            oc.append(len(cc))
            cc += r[2]
        else:
            oc.append(0)
    oc.append(len(cc))
    oa = []
    ac = b''
    for r in rules:
        oa.append(len(ac))
        ac += r[3]
    oa.append(len(ac))
    body += b''.join(u16(x) for x in oc) + b''.join(u16(x) for x in oa)
    body += b''.join(u16(x) for row in trans for x in row) + u8(0)
    pc = base + 40 + len(body)
    rc = pc + len(passcon)
    acode = rc + len(cc)
    hdr = (u8(flags) + u8(maxloop) + u8(8) + u8(0) + u16(nr) + u16(0) + u32(pc) + u32(rc) + u32(acode) + u32(0)
           + u16(nstates) + u16(ntrans) + u16(nsucc) + u16(ncols) + u16(len(cols)) + u16(0) + u16(0) + u16(0))
    assert len(hdr) == 40
    return hdr + body + passcon + cc + ac


def silf(passes_fn, npasses, isubst, ipos, ijust, classes, nlinear, dirn=0, ibidi=0xFF, amirror=0):
    ncls = len(classes)
    cm = u16(ncls) + u16(nlinear)
    off = 4 + 2 * (ncls + 1)
    offs = []
    data = b''
    for c in classes:
        offs.append(off + len(data))
        data += b''.join(u16(g) for g in c)
    offs.append(off + len(data))
    cm += b''.join(u16(o) for o in offs) + data
    hdr = (u32(0x00030000) + u16(0) + u16(0) + u16(NG - 1) + u16(0) + u16(0) + u8(npasses) + u8(isubst) + u8(ipos) + u8(ijust) + u8(ibidi) + u8(0)
           + u8(2) + u8(2) + u8(1) + u8(2) + u8(3) + u8(amirror) + u8(0)   # maxPre,maxPost, aPseudo=1,aBreak=2,aBidi=3,aMirror (0: none),aPassBits=0
           + u8(0)                                                # numJLevels
           + u16(0) + u8(2) + u8(0) + u8(dirn + 1) + u8(0) + b'\0' * 3 + u8(0) + u8(0) + u8(0) + u16(0))   # direction byte: Silf::readGraphite stores byte - 1
    fixed_after = 4 * (npasses + 1) + 8
    passes_start = len(hdr) + fixed_after + len(cm)
    pbytes = []
    pos = passes_start
    for i in range(npasses):
        b = passes_fn(i, pos)
        pbytes.append(b)
        pos += len(b)
    op = []
    p = passes_start
    for b in pbytes:
        op.append(p)
        p += len(b)
    op.append(p)
    sub = hdr + b''.join(u32(x) for x in op) + u16(0) + u16(0) + u16(0) + u16(0) + cm + b''.join(pbytes)
    return u32(0x00030000) + u32(0x00050000) + u16(1) + u16(0) + u32(16) + sub


def sfnt(tables):
    tags = sorted(tables)
    n = len(tags)
    out = u32(0x00010000) + u16(n) + u16(0) + u16(0) + u16(0)
    off = 12 + 16 * n
    dirb = b''
    body = b''
    for t in tags:
        d = tables[t]
        dirb += t.encode() + u32(0) + u32(off + len(body)) + u32(len(d))
        body += d + b'\0' * ((4 - len(d) % 4) % 4)
    return out + dirb + body


def build(passes_fn, npasses, isubst, ipos, classes, ijust=None, dirn=0, r=None, upem=1000):
    gloc, glat = gloc_glat(r)
    return sfnt({'head': head(upem), 'hhea': hhea(), 'hmtx': hmtx(), 'maxp': maxp(), 'cmap': cmap(), 'Gloc': gloc, 'Glat': glat, 'Feat': feat(), 'Sill': sill(),
                 'Silf': silf(passes_fn, npasses, isubst, ipos, npasses if ijust is None else ijust, classes, len(classes), dirn)})


# ---------------------------------------------------------------------------------------------------------------------
# random rule sets

def trie_fsm(patterns, ncols):
    """patterns: list of column lists (each at least one column). Returns (trans rows, nstates, ntrans, nsucc, rulemap lists)
    with the states ordered [transitional only][transitional + success][success only] as the loader requires."""
    nodes = [{}]            # child maps
    ends = [[]]             # rules ending at node
    for ri, pat in enumerate(patterns):
        n = 0
        for c in pat:
            if c not in nodes[n]:
                nodes[n][c] = len(nodes)
                nodes.append({})
                ends.append([])
            n = nodes[n][c]
        ends[n].append(ri)
    t_only = [i for i in range(len(nodes)) if nodes[i] and not ends[i]]
    t_succ = [i for i in range(len(nodes)) if nodes[i] and ends[i]]
    s_only = [i for i in range(len(nodes)) if not nodes[i] and ends[i]]
    if 0 in t_succ or 0 in s_only:
        raise ValueError("empty pattern")
    if 0 not in t_only:
        t_only = [0] + t_only
    t_only.remove(0)
    order = [0] + t_only + t_succ + s_only
    num = {n: i for i, n in enumerate(order)}
    ntrans = 1 + len(t_only) + len(t_succ)
    nsucc = len(t_succ) + len(s_only)
    trans = []
    for n in order[:ntrans]:
        trans.append([num[nodes[n][c]] if c in nodes[n] else 0 for c in range(ncols)])
    rulemaps = [ends[n] for n in order[len(order) - nsucc:]]
    return trans, len(order), ntrans, nsucc, rulemaps


def gen_constraint(r, pre, length):
    """a short constraint (always loader-valid, one value left on the stack): a constant, a comparison of constants, or a
    test of the break-weight glyph attribute (attribute 2) of the slot the constraint is run on"""
    k = r.random()
    if k < 0.3:
        return bytes([OP['PUSH_BYTE'], r.choice([0, 1, 1, 1]), OP['POP_RET']])
    if k < 0.5:
        return bytes([OP['PUSH_BYTE'], r.randrange(3), OP['PUSH_BYTE'], r.randrange(3), OP['EQUAL'], OP['POP_RET']])
    return bytes([OP['PUSH_GLYPH_ATTR_OBS'], 2, 0, OP['PUSH_BYTE'], r.choice([0, 10, 20, 30, 246]), OP['EQUAL'], OP['POP_RET']])


def gen_rules(r, positioning, ncols, allow=None, max_rules=5, posallow=None):
    """-> (pre, [(sortkey, pre, constraint, action, pattern)])"""
    pre = r.choice([0, 0, 0, 0, 1, 1, 2, 2, 3, 4])
    rules = []
    seen = set()
    for _ in range(r.randrange(1, max_rules + 1)):
        length = r.randrange(1, 4)
        pat = tuple(r.randrange(ncols) for _ in range(pre + length))
        if positioning:
            al = posallow or allow or ("next", "assoc", "attach", "attr", "put_copy")
        else:
            al = allow or ("next", "insert", "delete", "put_copy", "assoc", "attach", "attr", "put_glyph")
        act, kinds = gen_action_ext(r, pre, pre + length, al)
        con = gen_constraint(r, pre, length) if r.random() < 0.3 else b''
        rules.append((pre + length, pre, con, bytes(act), pat, kinds))     # the sort key is the rule's total length (Code's rule_length)
    return pre, rules


def gen_action_ext(r, pre, length, allow):
    """heapgen's generator, extended with glyph substitution (put_glyph: always ahead of the `next` that leaves the slot)"""
    base_allow = tuple(a for a in allow if a != "put_glyph")
    prog, kinds = heapgen.gen_action(r, pre, length, allow=base_allow or ("next",))
    if "put_glyph" in allow and r.random() < 0.6:
        if r.random() < 0.35:
            # put_subs: the glyph at the same index of the output class as the slot's glyph has in the input class - classes of
            # different lengths, so that the index can be the output class's length or beyond (getClassGlyph then answers glyph 0),
            # and glyphs that are not in the input class at all (index 0xFFFF)
            ic, oc = r.choice([1, 2, 2, r.randrange(NCLASSES)]), r.randrange(NCLASSES)
            # (every third one in the obsolete 8-bit encoding, opcodes 29 / 28: the same operations with byte-sized class numbers)
            prog = ([29, 0, ic, oc] if r.random() < 0.33 else [OP['PUT_SUBS'], 0, 0, ic, 0, oc]) + prog
        else:
            oc = r.randrange(NCLASSES)
            prog = ([28, oc] if r.random() < 0.33 else [OP['PUT_GLYPH'], 0, oc]) + prog
    return prog, kinds


NCLASSES = 4
CLASSES = [[2], [1, 3], [5, 6, 7], [9]]      # linear classes of lengths 1, 2, 3, 1: put_subs from a longer into a shorter class meets the index = length boundary


GATTR = None


def gen_font(r, npasses=None, dirn=None, maxloop=None, posallow=None, allow=None, constraints=True, max_rules=5, ipos=None, rtl=False):
    """a random font: 1..3 passes (substitution then positioning), each with 1..5 rules over the glyph columns.
    Returns (sfnt bytes, description); description["model"] is the same font in the line format of `grdriver shape`."""
    np_ = npasses or r.randrange(1, 4)
    isubst = 0
    ipos = r.randrange(0, np_ + 1) if ipos is None else ipos
    ncols = r.choice([2, 3, 9])
    cols = [(g, g, (g - 1) % ncols) for g in range(1, NG)]
    specs = []
    for i in range(np_):
        pre, rules = gen_rules(r, i >= ipos, ncols, allow=allow, posallow=posallow, max_rules=max_rules)
        if not constraints:
            rules = [(ru[0], ru[1], b'', ru[3], ru[4], ru[5]) for ru in rules]
        trans, nst, ntr, nsu, rm = trie_fsm([ru[4] for ru in rules], ncols)
        # `rtl`: some passes run against the font's direction (bit 5 of the pass flags)
        specs.append(dict(pre=pre, rules=rules, ml=maxloop or r.choice([1, 2, 5, 5, 20]), trans=trans, nst=nst, ntr=ntr, nsu=nsu, rm=rm,
                          flags=(32 if rtl and r.random() < 0.3 else 0), pcon=b'', minpre=pre))

    def passes_fn(i, base):
        sp = specs[i]
        return mk_pass([ru[:4] for ru in sp["rules"]], ncols, cols, sp["trans"], sp["nst"], sp["ntr"], sp["nsu"], sp["rm"], [0] * (sp["pre"] - sp["minpre"] + 1), sp["minpre"], sp["pre"], base,
                       maxloop=sp["ml"], flags=sp["flags"], passcon=sp["pcon"])
    d = r.choice([0, 0, 1]) if dirn is None else dirn
    # passes whose minimum pre-context is smaller than the rules' (all start states 0): near the start of the text the matcher then runs
    # with fewer context slots than the matched rule wants, and Pass::testConstraint has to turn the rule down (context < preContext) -
    # drawn from a stream of its own
    mp = r.__class__(r.random())
    for sp in specs:
        if sp["pre"] and mp.random() < 0.5:
            sp["minpre"] = mp.randrange(0, sp["pre"])
    gl = r.__class__(r.random())          # glyph attributes come from their own stream so that the model line can repeat them
    if constraints:
        # pass constraints (Pass::testPassConstraint: run once on the first slot of the stream, before the reversal; false = the pass is
        # skipped): a constant, a comparison, a test of the first glyph's break-weight attribute - drawn from a stream of their own so
        # that fonts generated before this feature keep their rules
        pr = r.__class__(r.random())
        for sp in specs:
            if pr.random() < 0.3:
                sp["pcon"] = gen_constraint(pr, sp["rules"][0][1], sp["rules"][0][0] - sp["rules"][0][1])
    gattr = [[0, 0, gl.choice([0, 0, 10, 20, -10, 30]), 0] for _ in range(NG)]
    if rtl:
        # bidi class 16 (non-spacing mark) for some glyphs: `reverseSlots` keeps them behind their base
        for g in range(1, NG):
            if gl.random() < 0.25:
                gattr[g][3] = 16
    # the bidi step (Silf::m_bPass, what is left of the bidi pass): absent, in front of the first positioning pass (the shape of the
    # shipped fonts that have one), or anywhere behind it up to the end; the justification pass index goes with it (the loader wants
    # pPass <= jPass <= bPass).  Drawn from a stream of its own.
    br = r.__class__(r.random())
    ibidi = 0xFF
    if rtl and br.random() < 0.5:
        ibidi = br.choice([ipos, ipos, br.randrange(ipos, np_ + 1)])
    # mirroring (Segment::doMirror: requests with gr_rtl | gr_nobidi): most fonts have no mirror attribute (aMirror = 0) - some of those
    # carry values in glyph attribute 0, which must then not be taken for mirror glyphs -, some have one (attribute 4 = the mirror
    # glyph, attribute 5 = "keep under gr_nomirror")
    mr = r.__class__(r.random())
    amirror = 0
    if rtl:
        k = mr.random()
        if k < 0.25:
            for g in range(1, NG):
                if mr.random() < 0.4:
                    gattr[g][0] = mr.choice([1, 5, 9, 300])
        elif k < 0.6:
            amirror = 4
            for g in range(NG):
                gattr[g] = gattr[g] + [mr.choice([0, 0, 1 + mr.randrange(NG - 1)]) if g else 0, mr.choice([0, 0, 1])]
    data = build_with(passes_fn, np_, isubst, ipos, CLASSES, dirn=d, gattr=gattr, ijust=(None if ibidi == 0xFF else ibidi), ibidi=ibidi, amirror=amirror)
    colarr = [0xFFFF] + [(g - 1) % ncols for g in range(1, NG)]
    pm = []
    for sp in specs:
        pm.append("/".join([
            "%d,%d,%d,%d,%d,%d,%d,%d" % (sp["ml"], sp["minpre"], sp["pre"], ncols, sp["ntr"], sp["nst"], sp["nsu"], sp["flags"]),
            ",".join(map(str, colarr)), ",".join(["0"] * (sp["pre"] - sp["minpre"] + 1)),
            ";".join(",".join(map(str, row)) for row in sp["trans"]) or "-",
            ";".join((",".join(map(str, l)) or "-") for l in sp["rm"]) or "-",
            ";".join("%d,%d,%s,%s" % (ru[0], ru[1], ru[2].hex() or "-", ru[3].hex() or "-") for ru in sp["rules"]),
            ";".join(".".join(map(str, ru[4])) for ru in sp["rules"]),
            sp["pcon"].hex() or "-"]))
    model = "ipos=%d sdir=%d bidi=%d mirror=%d classes=%s gattr=%s gadv=%s passes=%s" % (ipos, d, ibidi, amirror, ";".join(".".join(map(str, c)) for c in CLASSES),
                                                                      ";".join(".".join(map(str, g)) for g in gattr), ".".join(str(500 + 10 * g) for g in range(NG)), "|".join(pm))
    desc = {"passes": np_, "ipos": ipos, "ncols": ncols, "dir": d, "bidi": ibidi, "model": model,
            "rules": [[{"sort": ru[0], "pre": ru[1], "con": ru[2].hex(), "act": ru[3].hex(), "pat": list(ru[4]), "kinds": ru[5]} for ru in sp["rules"]] for sp in specs]}
    return data, desc


def build_with(passes_fn, npasses, isubst, ipos, classes, dirn=0, gattr=None, upem=1000, ijust=None, ibidi=0xFF, amirror=0):
    glat = u32(0x00010000)
    locs = []
    for g in range(NG):
        locs.append(len(glat))
        row = gattr[g] if gattr else [0, 0, 0, 0]
        glat += u8(0) + u8(len(row)) + b''.join(u16(v) for v in row)
    locs.append(len(glat))
    gloc = u32(0x00010000) + u16(0) + u16(NATTR) + b''.join(u16(l) for l in locs)
    return sfnt({'head': head(upem), 'hhea': hhea(), 'hmtx': hmtx(), 'maxp': maxp(), 'cmap': cmap(), 'Gloc': gloc, 'Glat': glat, 'Feat': feat(), 'Sill': sill(),
                 'Silf': silf(passes_fn, npasses, isubst, ipos, npasses if ijust is None else ijust, classes, len(classes), dirn, ibidi=ibidi, amirror=amirror)})


def gen_text(r, maxlen=12):
    return [r.randrange(0x61, 0x6a) if r.random() < 0.95 else r.choice([0x20, 0x7a, 0x41]) for _ in range(r.randrange(0, maxlen + 1))]


def gen_loop_font(r):
    """a font whose state machine loops: `a+ b` with a self-loop on column 0, so that long runs of one glyph drive the walk to
    the slot-map limit (MAX_SLOTS); the rule itself is `a b` with a random action"""
    ncols = 2
    cols = [(g, g, (g - 1) % ncols) for g in range(1, NG)]
    act, kinds = gen_action_ext(r, 0, 2, ("next", "insert", "delete", "put_glyph", "assoc"))
    rules = [(2, 0, b'', bytes(act), (0, 1), kinds)]
    trans = [[1, 0], [1, 2]]          # state 0: a -> 1 ; state 1: a -> 1 (loop), b -> 2 (success)
    ml = r.choice([1, 3, 5])

    def passes_fn(i, base):
        return mk_pass([ru[:4] for ru in rules], ncols, cols, trans, 3, 2, 1, [[0]], [0], 0, 0, base, maxloop=ml)
    gattr = [[0, 0, 0, 0] for _ in range(NG)]
    data = build_with(passes_fn, 1, 0, 1, CLASSES, dirn=0, gattr=gattr)
    colarr = [0xFFFF] + [(g - 1) % ncols for g in range(1, NG)]
    pm = "/".join(["%d,0,0,%d,2,3,1" % (ml, ncols), ",".join(map(str, colarr)), "0", "1,0;1,2", "0", "2,0,-,%s" % bytes(act).hex(), "0.1"])
    model = "ipos=1 classes=%s gattr=%s gadv=%s passes=%s" % (";".join(".".join(map(str, c)) for c in CLASSES), ";".join(".".join(map(str, g)) for g in gattr),
                                                             ".".join(str(500 + 10 * g) for g in range(NG)), pm)
    return data, {"model": model, "passes": 1, "ipos": 1, "dir": 0, "rules": [[{"kinds": kinds}]]}


def gen_boundary_font(r):
    """a font that the loader must refuse: one action or constraint names a table entry exactly one past the end of its table
    (class number = number of classes, glyph attribute = number of attributes, a feature although the font has none)"""
    kind = r.choice(["class", "class_subs", "gattr", "feat"])
    ncols = 3
    cols = [(g, g, (g - 1) % ncols) for g in range(1, NG)]
    if kind == "class":
        act = bytes([OP['PUT_GLYPH'], 0, NCLASSES, OP['NEXT'], OP['RET_ZERO']])
        con = b''
    elif kind == "class_subs":
        act = bytes([OP['PUT_SUBS'], 0, 0, r.choice([0, NCLASSES]), 0, NCLASSES, OP['NEXT'], OP['RET_ZERO']])
        con = b''
    elif kind == "gattr":
        act = bytes([OP['NEXT'], OP['RET_ZERO']])
        con = bytes([OP['PUSH_GLYPH_ATTR_OBS'], NATTR, 0, OP['POP_RET']])
    else:
        act = bytes([OP['NEXT'], OP['RET_ZERO']])
        con = bytes([43, 0, 0, OP['POP_RET']])          # PUSH_FEAT feature 0 of a font without features
    rules = [(1, 0, con, act, (r.randrange(ncols),), [kind])]
    trans, nst, ntr, nsu, rm = trie_fsm([ru[4] for ru in rules], ncols)

    def passes_fn(i, base):
        return mk_pass([ru[:4] for ru in rules], ncols, cols, trans, nst, ntr, nsu, rm, [0], 0, 0, base, maxloop=3)
    return build_with(passes_fn, 1, 0, 1, CLASSES, dirn=0), {"kind": kind}


def font_from_rules(passes, ipos, ncols, gattr=None, dirn=0):
    """passes: list of (pre, maxloop, [(sort, pre, constraint bytes, action bytes, pattern)][, pass flags]) -> (sfnt bytes, model description)"""
    cols = [(g, g, (g - 1) % ncols) for g in range(1, NG)]
    specs = []
    for ps in passes:
        pre, ml, rules = ps[:3]
        trans, nst, ntr, nsu, rm = trie_fsm([ru[4] for ru in rules], ncols)
        specs.append(dict(pre=pre, rules=rules, ml=ml, trans=trans, nst=nst, ntr=ntr, nsu=nsu, rm=rm, flags=(ps[3] if len(ps) > 3 else 0)))

    def passes_fn(i, base):
        sp = specs[i]
        return mk_pass([ru[:4] for ru in sp["rules"]], ncols, cols, sp["trans"], sp["nst"], sp["ntr"], sp["nsu"], sp["rm"], [0], sp["pre"], sp["pre"], base, maxloop=sp["ml"], flags=sp["flags"])
    gattr = gattr or [[0, 0, 0, 0] for _ in range(NG)]
    data = build_with(passes_fn, len(specs), 0, ipos, CLASSES, dirn=dirn, gattr=gattr)
    colarr = [0xFFFF] + [(g - 1) % ncols for g in range(1, NG)]
    pm = []
    for sp in specs:
        pm.append("/".join(["%d,%d,%d,%d,%d,%d,%d,%d" % (sp["ml"], sp["pre"], sp["pre"], ncols, sp["ntr"], sp["nst"], sp["nsu"], sp["flags"]), ",".join(map(str, colarr)), "0",
                            ";".join(",".join(map(str, row)) for row in sp["trans"]) or "-", ";".join((",".join(map(str, l)) or "-") for l in sp["rm"]) or "-",
                            ";".join("%d,%d,%s,%s" % (ru[0], ru[1], ru[2].hex() or "-", ru[3].hex() or "-") for ru in sp["rules"]),
                            ";".join(".".join(map(str, ru[4])) for ru in sp["rules"])]))
    model = "ipos=%d sdir=%d classes=%s gattr=%s gadv=%s passes=%s" % (ipos, dirn, ";".join(".".join(map(str, c)) for c in CLASSES), ";".join(".".join(map(str, g)) for g in gattr),
                                                                      ".".join(str(500 + 10 * g) for g in range(NG)), "|".join(pm))
    return data, model


def gen_long_font(r):
    """one substitution pass with a rule nearly as long as the slot map (30, 61..63 slots; MAX_SLOTS is 64) on one glyph column, whose action
    walks over the rule with inserts, deletes and copies in between - the map register and the cursor at the far end of the map - and a
    one-slot rule beside it; texts are runs of that glyph around the rule's length"""
    ncols = 9
    ln = r.choice([30, 61, 62, 63, 63])
    pre = r.choice([0, 0, 1, 2])
    act, kinds = heapgen.gen_action(r, pre, ln, max_ops=ln + r.choice([4, 20, 40]), allow=("next",) * 7 + ("insert", "insert", "delete", "put_copy", "assoc", "attr"))
    act2, kinds2 = heapgen.gen_action(r, pre, pre + 1, max_ops=6)
    rules = [(ln, pre, b"", bytes(act), [0] * ln), (pre + 1, pre, b"", bytes(act2), [0] * pre + [1])]
    data, model = font_from_rules([(pre, r.choice([1, 3]), rules)], 1, ncols)
    return data, {"model": model, "kind": "long", "len": ln, "pre": pre}


def gen_long_text(r, desc):
    ln = desc["len"]
    n = r.choice([ln - 1, ln, ln, ln + 1, ln + 2, 70, 2 * ln + 3])
    t = [0x61] * n
    if r.random() < 0.3:
        t[r.randrange(n)] = 0x62
    return t


def gen_jump_font(r, fixed=None, ret=None, ln=None, ml=None):
    """a substitution pass whose rule moves the cursor around the high-water mark and returns a long jump: the pattern is
    `b c c` (columns 1 2 2) or a variation, the action a short sequence of next / insert / delete that ends on or near the
    slot behind which the mark lies, and the value returned (the new position relative to the final cursor) is a large
    negative or positive number; texts are long runs `a…a b c…c`.  These are the programs in which the rule loop's count
    depends on the book-keeping of `highpassed`."""
    ncols = 3
    ln = ln or r.randrange(2, 5)
    pat = [1] + [2] * (ln - 1)
    kinds = []
    act = []
    fixed = r.random() < 0.5 if fixed is None else fixed
    if fixed:
        # walk to the last slot of the match, delete it (the cursor steps back), jump
        for _ in range(ln - 1):
            act.append(OP['NEXT'])
        act.append(OP['DELETE'])
    else:
        depth = 0
        del0 = False
        for _ in range(r.randrange(1, 7)):
            k = r.choice(["next", "next", "delete", "insert"])
            if k == "next" and depth < ln - 1:
                act.append(OP['NEXT']); depth += 1
            elif k == "delete" and (depth > 0 or not del0):
                act.append(OP['DELETE'])          # (the loader refuses a second delete at the first slot of the match)
                del0 = del0 or depth == 0
            elif k == "insert":
                act += [OP['INSERT'], OP['PUT_GLYPH'], 0, r.randrange(NCLASSES)]
    if ret is None:
        ret = r.choice([-120, -100, -60, -7, -3, -2, -1, 0, 1, 2, 5, 100]) if not fixed else r.choice([-120, -100, -60, -20])
    act += [OP['PUSH_BYTE'], ret & 255, OP['POP_RET']]
    ml = ml or r.choice([1, 1, 2, 5])
    data, model = font_from_rules([(0, ml, [(ln, 0, b"", bytes(act), pat)])], 1, ncols)
    return data, {"model": model, "kind": "jump", "ret": ret, "fixed": fixed}


def gen_jump_text(r, long=False):
    y = r.choice([0, 3, 30, 125, 130])
    z = r.choice([2, 5, 40, 200, 500] + ([1500] if long else []))
    cps = [0x61] * y + [0x62] + [0x63] * z
    if r.random() < 0.3:
        cps += [0x61] * r.randrange(0, 10) + [0x62] + [0x63] * r.randrange(0, 30)
    return cps


def gen_reattach_font(r):
    """positioning passes that attach, re-attach and copy slots (`put_copy` from references that `assoc` turned into
    temporary copies): the histories in which stale parent pointers of copies matter.  `put_copy` dies on a slot that is
    attached or has attachments, so the rules keep the copied-to slot free: one slot `x` is attached to `i` in a first pass;
    a later pass re-attaches `x` (after an `assoc`, which makes later references see a copy of the old `x`) and copies a
    reference into `i` or another slot."""
    ncols = 9
    start = r.randrange(1, 4)
    ln = r.randrange(3, 5)
    pat = [((start + k - 1) % 9) for k in range(ln)]                # columns of glyphs start, start+1, ...
    x, i = sorted(r.sample(range(ln), 2))
    o = r.choice([k for k in range(ln) if k not in (x, i)])
    if r.random() < 0.3:
        x, i = i, x

    def rule(ops):
        act = []
        for k in range(ln):
            act += ops.get(k, [])
            act.append(OP['NEXT'])
        act.append(49 if r.random() < 0.8 else 50)
        return (ln, 0, b"", bytes(act), pat)
    att = lambda t: [OP['PUSH_BYTE'], t, OP['ATTR_SET'], 2]
    p0 = {x: att(i)}
    if r.random() < 0.3:
        p0[o] = att(r.choice([x, i]))
    p1 = {}
    p1[x] = ([OP['ASSOC'], 1, 0] if r.random() < 0.8 else []) + (att(o) if r.random() < 0.8 else att(r.randrange(ln)))
    tgt = i if r.random() < 0.7 else o
    src = x if r.random() < 0.7 else r.choice([k for k in range(ln) if k != tgt])
    p1[tgt] = p1.get(tgt, []) + [OP['PUT_COPY'], (src - tgt) & 255]
    passes = [(0, r.randrange(1, 3), [rule(p0)]), (0, r.randrange(1, 3), [rule(p1)])]
    ipos = 0
    if r.random() < 0.3 and x < i:
        # substitution passes: the parent `i` of `x` is deleted after a copy of `x` (still naming `i`) was taken, and its own
        # map cell is replaced by a copy too (it is `assoc`ed and referenced later), so that garbage collection never sees
        # it; a later slot then copies the reference to `x`
        later = [k for k in range(ln) if k > i]
        if later:
            t = r.choice(later)
            q = {x: [OP['ASSOC'], 1, 0], i: [OP['ASSOC'], 1, 0, OP['DELETE']]}
            act = []
            for k in range(ln):
                act += q.get(k, [])
                if k == t:
                    act += [OP['PUT_COPY'], (x - t) & 255]
                if k < ln - 1:
                    act.append(OP['NEXT'])
            # a reference to the deleted slot's cell (so that it got a temporary copy), then return
            act += [OP['PUSH_GLYPH_ATTR_OBS'], 0, (i - (ln - 1)) & 255, OP['POP_RET']]
            passes = [(0, r.randrange(1, 3), [rule(p0)]), (0, r.randrange(1, 3), [(ln, 0, b"", bytes(act), pat)])]
            ipos = 2
    elif r.random() < 0.4:
        p2 = {k: att(r.randrange(ln)) for k in range(ln) if r.random() < 0.4}
        passes.append((0, 1, [rule(p2)]))
    data, model = font_from_rules(passes, ipos, ncols)
    return data, {"model": model, "kind": "reattach"}


def gen_reattach_text(r):
    base = r.choice(["abcd", "abc", "bcde", "abcabc", "abcdabcd", "cdef", "aabbcc", "abcde"])
    return [ord(c) for c in base]


def gen_classmap_font(r, which=None):
    """a font without passes whose Silf class map is hostile in the numbers the loader computes with: class counts around the
    point where 4 + 2*(numClasses+1) no longer fits 16 bits (Silf versions 2/3), first/last offsets, linear counts"""
    version = r.choice([0x00020000, 0x00030000, 0x00030000, 0x00040000])
    if which in ("wrap", "wrap1"):
        version = 0x00030000 if which == "wrap" else 0x00020000
    wide = version >= 0x00040000
    n = r.choice([32763, 32764, 32765, 32765, 32766, 32767, 40000, 65534, 65535]) if which not in ("wrap", "wrap1") else (32765 if which == "wrap" else 32766)
    nlin = n if r.random() < 0.7 or which in ("wrap", "wrap1") else r.randrange(0, n + 1)
    true_off = 4 + (4 if wide else 2) * (n + 1)
    first = r.choice([true_off & (0xFFFFFFFF if wide else 0xFFFF), true_off & 0xFFFF, 0, 4]) if which not in ("wrap", "wrap1") else (true_off & 0xFFFF)
    last = r.choice([first, first + 2, 65534, 65535, first + 2 * 32767, first + 2 * 40000]) if which not in ("wrap", "wrap1") else 65534
    mid = r.choice([first, last])
    offs = [first] + [mid if r.random() < 0.05 else first for _ in range(n - 1)] + [last] if n >= 1 else [first]
    pack = (lambda x: u32(x)) if wide else (lambda x: u16(x))
    cm = u16(n) + u16(nlin) + b"".join(pack(o) for o in offs) + bytes(r.randrange(256) for _ in range(r.choice([0, 0, 2, 64])))
    hdr = ((u32(0x00030000) + u16(0) + u16(0) if version >= 0x00030000 else b"") + u16(NG - 1) + u16(0) + u16(0) + u8(0) + u8(0) + u8(0) + u8(0) + u8(0xFF) + u8(0)
           + u8(2) + u8(2) + u8(1) + u8(2) + u8(3) + u8(4) + u8(0) + u8(0)
           + u16(0) + u8(2) + u8(0) + u8(1) + u8(0) + b"\0" * 3 + u8(0) + u8(0) + u8(0) + u16(0))
    passes_start = len(hdr) + 4 + 8 + len(cm)
    sub = hdr + u32(passes_start) + u16(0) * 4 + cm + b"\0" * r.choice([1, 1, 4])
    table = (u32(version) + (u32(0x00050000) if version >= 0x00030000 else b"") + u16(1) + u16(0) + u32(16 if version >= 0x00030000 else 12) + sub)
    gloc, glat = gloc_glat()
    return sfnt({'head': head(), 'hhea': hhea(), 'hmtx': hmtx(), 'maxp': maxp(), 'cmap': cmap(), 'Gloc': gloc, 'Glat': glat, 'Feat': feat(), 'Sill': sill(), 'Silf': table})


#!/usr/bin/env python3
"""Writes MANIFEST.json from the table below (keeps it schema-valid)."""
import json
import subprocess
from pathlib import Path
ROOT = Path(__file__).resolve().parent.parent

CHECKS = {
    "C07": dict(
        text="Proof (Lean 4 kernel): (1) op_sem_eq_spec - each of the 34 scalar opcode bodies, REGENERATED from opcodes.h by a C++-subset translator and wired as opcode_table.h wires them, simulates the step of the opcode specification (written from doc/OpCodes.adoc: 32-bit two's complement, signed comparisons, logical 0/1, truncating division failing on 0 and INT_MIN/-1, zero-extending truncation, operand sign/zero extension) on every int32 stack and all operand bytes; (2) run_eq_spec - for every program over these opcodes on which the specification is defined, Machine::run returns the specification's value and status (stack array with guard cells, ENDOP continuation test with the extracted unsigned division, epilogue and check_final_stack as extracted); (3) drivers_agree - the direct-threaded and call-threaded run loops are the same function because both ENDOP/EXIT/epilogue texts extract to the same definitions. Loader model (scalar subset) and the whole chain are tied to the code by running ~70k programs (full boundary operand grids, random depth-aware programs, stack-limit and malformed programs) through both interpreter builds, as action and constraint code, under ASan/UBSan, against the model and against an independent Python evaluator.",
        note="Trusted: Lean kernel + [propext, Classical.choice, Quot.sound]; tools/vmtrans.py (translator) and the macro-text pins; Model/VmPrelude.lean; hand-written loader model tied by correspondence; not yet proved: that every loader-accepted byte string satisfies run_eq_spec's 'specification defined' premise (load_defined) - decided by correspondence; whole-library equality of the two builds on shaping is covered by the dump checks, not here.",
        technique="Lean 4 simulation proof over opcode bodies regenerated from the C++ source + differential execution on both interpreter builds",
        ref="§6 C07"),
    "C03": dict(
        text="Proof (Lean 4 kernel), partial: the segment is modelled as a heap of slot records linked by next/prev/parent/child/sibling indices with a free list; action_stream_wf - for EVERY rule-action program (any instruction list over next, copy_next, insert, delete, put_copy, assoc, temp_copy, attr_set(_slot) and the 34 scalar opcodes, any data bytes, any outcome: finished, died, slot offset out of bounds) followed by SlotMap::collectGarbage/freeSlot, a well-formed doubly linked stream stays a well-formed doubly linked stream whose length is the glyph count; stream_walk - hence following next from first visits exactly numGlyphs distinct slots, ends at last, and prev is the exact inverse. Not covered by a theorem: reverseSlots, bidi, linkClusters, finiteness of positions, glyph-id range, index permutation - these clauses are decided on the implementation's output only. Model tied to the code by running random loader-accepted action programs on the real Segment/SlotMap/Machine against the model (heap dumps must be equal), plus the public-API predicate on synthesised fonts with random rule sets and on the shipped fonts.",
        note="Trusted: Lean kernel + [propext, Classical.choice, Quot.sound]; hand-written Model/Seg.lean, Model/Action.lean tied by correspondence; the matcher's guarantee that the slot map's current cell holds a stream slot is a hypothesis of the theorem; tools/fontsynth.py, tools/heapgen.py.",
        technique="Lean 4 invariant proof (induction over all opcode sequences) on a hand-written heap model + differential execution against the real engine + public-API predicate on synthesised fonts",
        ref="§6 C03/C04/C05"),
    "C04": dict(
        text="Proof (Lean 4 kernel), partial: the attachment primitives (child, sibling, removeChild, freeSlot's detach loop, setAttr(attach.to), delete_'s detach) are modelled pointer assignment by pointer assignment; proved: they write only parent/child/sibling (frame theorems, so they can never damage the stream or the character association), and attach refuses itself, its current parent, temporary copies and deleted slots. The forest invariant itself (parent chains end, child chains enumerate exactly the attached slots, no pointer leaves the stream) is NOT yet a theorem: it is decided by the correspondence of the heap model with the real engine on random action programs and by the predicate on the implementation's dumps (component level and public API, incl. the base chain after linkClusters).",
        note="Trusted: Lean kernel + [propext, Classical.choice, Quot.sound]; hand-written Model/Seg.lean tied by correspondence; the deciding part for the forest clauses is differential/predicate checking, labelled as such.",
        technique="Lean 4 frame/guard theorems on a hand-written heap model + differential execution against the real engine + forest predicate on heap dumps and public-API dumps",
        ref="§6 C03/C04/C05"),
    "C05": dict(
        text="Proof (Lean 4 kernel), partial: action_assoc_in_range - for EVERY rule-action program and its garbage collection every slot's before/after/original stays a character index in [0,n) (insert and assoc only copy association values of existing slots); char-info count, order and strictly increasing bases are the C12 theorems about process_utf_data. Segment::associateChars is modelled and tied by correspondence; its coverage clause and the char-info ranges are decided on the implementation's output (component: arbitrary in-range slot associations; public API: synthesised fonts, shipped fonts). Known finding D-9 (coverage lost when a positioning pass contains ASSOC/PUT_COPY) is reported as KNOWN-FINDING.",
        note="Trusted: Lean kernel + [propext, Classical.choice, Quot.sound]; hand-written Model/Seg.lean, Model/Action.lean, Model/Assoc.lean tied by correspondence; tools/fontsynth.py.",
        technique="Lean 4 invariant proof over all opcode sequences + differential execution of associateChars and action programs + public-API predicate on synthesised fonts",
        ref="§6 C03/C04/C05"),
    "C19": dict(
        text="Proof (Lean 4 kernel), partial: gr_slot_linebreak_before and the line-end sentinels of justification (Segment::addLineEnd / delLineEnd) are modelled on the slot heap; cut_splits_stream - cutting in front of any interior slot of a well-formed stream yields two well-formed doubly linked chains with the same slots in the same order; sentinel_roundtrip - inserting the line-end sentinel in front of a stream slot and deleting it again restores first, last and every link, whatever the slot allocator did. Segment::justify as a whole (arithmetic, justification passes, positionSlots, the two reverseSlots calls) is NOT modelled; 'every call returns, every line still the same chain, finite widths and origins, destroy releases everything' is decided on the implementation by randomised API histories over 6 shipped fonts x dir 0..7 x cuts x justify argument tuples under ASan/LSan. Known finding D-10b (requested direction opposite to the font's on a cut segment) is reported as KNOWN-FINDING.",
        note="Trusted: Lean kernel + [propext, Classical.choice, Quot.sound]; hand-written Model/Lines.lean tied by correspondence on cut/sentinel operation sequences; the history predicate (per-line walks) for everything justify does beyond that.",
        technique="Lean 4 theorems on a hand-written heap model of cut and sentinel operations + differential execution + randomised public-API histories under ASan/LSan",
        ref="§6 C19"),
    "C06": dict(
        text="Proof (Lean 4 kernel), partial: the pass engine (runFSM, accumulate_rules, testConstraint, findNDoRule, adjustSlot, the maxLoop/highwater loop, pass sequencing, action interpreter) is modelled and is the reference semantics. Proved about it: fsm_matches_patterns - when the pass tables encode the rule patterns (TrieOK, a finite check the driver evaluates for every font it runs; table_check_is_sound) the state machine collects exactly the rules whose glyph-class pattern is a prefix of the stream ahead, in precedence order, and never exhausts the slot map; state_rules_in_precedence_order / merge_keeps_precedence_order - longest sort key first, then earliest rule, each once; applied_rule_is_highest_precedence - the rule whose action runs matches, its constraint holds, and every matching rule of higher precedence has a failing constraint; no_rule_means_all_failed. The model is tied to the code by shaping synthesised fonts (random rule sets over overlapping glyph columns, constraints on glyph attributes, 1..3 passes, all slot-manipulating actions) with the real engine and with the model: glyph ids, associations and attachments must be identical. Not covered: positions in design units, right-to-left and bidi passes, pass constraints.",
        note="Trusted: Lean kernel + [propext, Classical.choice, Quot.sound]; hand-written Model/Pass.lean etc. tied by whole-pipeline correspondence; tools/fontsynth.py emits the binary font and the model's description of it from the same data (a mismatch between the two shows up as a disagreement).",
        technique="Lean 4 theorems (matching = pattern prefixes, precedence order, first passing constraint) on a hand-written executable model of the pass engine + whole-pipeline differential execution on synthesised fonts",
        ref="§6 C06"),
    "C02": dict(
        text="Proof (Lean 4 kernel), partial: fsm_stays_in_slot_map - for every font's tables and every glyph stream the state-machine walk writes at most MAX_SLOTS cells of the slot map; insert_respects_budget and pass_range_growth - the insert opcode dies once the pass's budget is used up and a range of passes that returns a segment did not let it outgrow 64 x the slots it started with; code runs by structural recursion over its instruction list (each instruction at most once); stack discipline for specification-defined programs is C07's run_eq_spec. The rule-loop bound maxRuleLoop x (slots + insert budget + 2) is NOT a theorem: it is checked on the implementation's counter (hook GRAPHITE2_VERIF in Pass::runGraphite), and that counter is compared with the model's on every synthesised font. Memory safety, undefined behaviour and leaks in the whole of gr_make_seg / queries / destruction are decided on the implementation under ASan/UBSan/LSan with synthesised fonts (all dir flags, three encodings, ill-formed text), looping state machines driven to the slot-map limit, boundary fonts the loader must refuse, and byte-mutated shipped fonts.",
        note="Trusted: Lean kernel + [propext, Classical.choice, Quot.sound]; hand-written models tied by correspondence; the hook commit; sanitizers as the oracle for memory safety (finite exploration, labelled as such).",
        technique="Lean 4 bound theorems on the pass-engine model + hook-based loop counter compared with the model + sanitizer-instrumented execution of synthesised, boundary and mutated fonts",
        ref="§6 C02"),
    "C01": dict(
        text="Proof (Lean 4 kernel), partial: totality / in-bounds theorems for ALL byte strings for the loader components that are modelled - the sfnt container as a file face reads it (file_face_total: constructor, directory search of at most 40 entries and the bounds test of get_table_fn never read outside the file, and a table that is handed out lies inside it), Pass::readRanges (pass_ranges_total: the glyph->column map is built without an access outside m_cols or the range records, accepted maps hold only valid columns; a range ending at the glyph count itself is refused), cmap lookups after CheckCmapSubtable4/12 (C13), compressed tables and the LZ4 decoder (C14). The loader as a whole is NOT modelled: 'either NULL or a usable face, no out-of-bounds access, no undefined behaviour, no hang, no leak, tables released' is decided on the implementation under ASan/UBSan/LSan over byte-mutated shipped fonts (incl. the compressed one), structurally hostile Sill/Feat/Glat/Gloc/name tables, synthesised fonts the loader must refuse, all face-option values, both table sources, every face/feature query and destruction.",
        note="Trusted: Lean kernel + [propext, Classical.choice, Quot.sound]; hand-written Model/Loader.lean tied by correspondence; sanitizers as the oracle for the un-modelled part (finite exploration, labelled as such).",
        technique="Lean 4 totality theorems for modelled loader components + differential execution + sanitizer-instrumented loading of mutated and structurally hostile fonts through both table sources",
        ref="§6 C01"),
    "C08": dict(
        text="Proof (Lean 4 kernel), partial: the one piece of face state that shaping writes - the lazily filled glyph cache - is history-independent: glyph_cache_history_independent (after ANY sequence of earlier requests a request returns what the immutable tables say, the same as on a preloaded face); the pass-engine model (tied to the code by the C06 correspondence) is a function of font tables and text by construction. The property as a whole is decided on the implementation by randomised API histories: a probe segment made before and after arbitrary other calls (other segments in all directions, line breaks, justification, feature values, label queries, second fonts, destructions; lazy and preloaded faces; file and callback sources) must dump identically and the face must answer its queries identically.",
        note="Trusted: Lean kernel + [propext, Quot.sound]; hand-written Model/Borrow.lean (glyph cache) tied to the code only through end-to-end dumps; the history predicate is a finite exploration.",
        technique="Lean 4 theorem on a glyph-cache model + randomised API histories with identical-dump comparison",
        ref="§6 C08/C10"),
    "C09": dict(
        text="Proof (Lean 4 kernel) for the mechanism, exploration for the interleavings: preloaded_cache_is_read_only - on a preloaded face a glyph request never writes the cache; concurrent_answers_are_sequential_answers - any list of other requests leaves every answer unchanged. That the real library performs no other shared write and calls no table callback is sampled, not proved: N threads (2..16) shape on one shared cold preloadAll face under ThreadSanitizer and AddressSanitizer, every thread's segments are compared with the single-threaded ones on the same and on a fresh face, and late table callbacks are counted. The detector is validated on every run against the known race of a lazily loading face (outside the property).",
        note="Trusted: Lean kernel + [propext, Quot.sound]; ThreadSanitizer over a finite sample of schedules - for the interleavings this is exploration, stated as such.",
        technique="Lean 4 read-only theorem on a glyph-cache model + ThreadSanitizer runs of concurrent shapers compared with single-threaded results",
        ref="§6 C09"),
    "C10": dict(
        text="Proof (Lean 4 kernel), partial: preload_eq_lazy - on fonts all of whose glyphs are readable the preloaded and the lazy glyph cache hand out the same glyphs after any history; preload_fails_iff_some_glyph_unreadable; the cached and the direct cmap lookup are modelled and compared exhaustively per table in C13. The property as a whole is decided on the implementation: every shipped and synthesised font x texts x directions under all 8 option values x {file, callbacks} must report identical face information (glyph count, features, values, labels, languages, character support) and produce identical segments (design units and scaled).",
        note="Trusted: Lean kernel + [propext, Classical.choice, Quot.sound]; the option matrix is a finite exploration over fonts and texts.",
        technique="Lean 4 theorems on a glyph-cache model + full option/source matrix with identical-dump comparison",
        ref="§6 C08/C10"),
    "C16": dict(
        text="Proof (Lean 4 kernel), partial: table_life_disciplined - one Face::Table object, however it came into being (absent, failing CheckTable, plain, compressed with any decoder outcome) and however often it is re-assigned from fresh tables, has by its destruction released every pointer obtained from get_table exactly once (never twice, never one not outstanding) and freed every buffer it allocated exactly once. The model is tied to the code by comparing event traces of the real Face::Table over a lending callback. Which tables a face requests and when, use after release, leaks and the preloadAll 'no late get_table' clause are decided on the implementation: every get_table hands out a fresh heap copy that release_table frees (a later access is an ASan use-after-free), randomised create/shape/query/destroy histories on well-formed and byte-mutated fonts, traffic balance, LeakSanitizer.",
        note="Trusted: Lean kernel + [propext, Classical.choice, Quot.sound]; hand-written Model/Borrow.lean tied by trace correspondence; ASan/LSan as the oracle for the un-modelled part.",
        technique="Lean 4 protocol theorem (borrow discipline of Face::Table) + trace correspondence + lending-callback histories under ASan/LSan",
        ref="§6 C16"),
    "C15": dict(
        text="Proof (Lean 4 kernel), partial: Segment::positionSlots / Slot::finalise / floodShift are modelled in exact rational arithmetic with the font's scale k as a parameter; positions_scale_linearly - for every slot heap, every stream and every k > 0, positioning with scale k yields exactly k times the design-unit origin of every slot and k times the design-unit advance (the threshold tests inside finalise are on design units or invariant under scaling); in the model the passes never see the font, so glyph ids, attachments and associations cannot depend on it. The design-unit instance of the model is compared exactly (origins, advances, segment advance) with the engine on every synthesised font of the pipeline correspondence. Right-to-left runs, collision offsets, justification, hinted fonts and single-precision rounding are not in the model: for them the property is decided on the implementation by shaping shipped fonts (incl. Awami with collision fixing) with font = NULL and with sized fonts of 0.37..4096 ppm and comparing within float tolerance.",
        note="Trusted: Lean kernel + [propext, Classical.choice, Quot.sound]; hand-written Model/Position.lean tied by whole-pipeline correspondence in design units; float tolerance 2e-5 relative + 1e-4 absolute in the scaled comparison.",
        technique="Lean 4 linearity theorem on an exact-arithmetic positioning model + exact design-unit correspondence + NULL-vs-sized-font comparison on shipped fonts",
        ref="§6 C15"),
    "C11": dict(
        text="Proof (Lean 4 kernel), for all code-unit strings in all three encodings: gr_count_unicode_characters' model never faults on [begin,end) and equals the Unicode specification's scan (Table 3-7/D91/D90) - exact count without error on well-formed text, error reported on ill-formed text, error pointer inside the buffer, count <= well-formed characters before the first ill-formed sequence; NUL-terminated branch never reads past a NUL; get/put inverse on all scalar values; ill-formed sequences swallow only trailing units (resync); the three encodings of a scalar list read back as the same scalars. Decoder tables, limits and toolong thresholds are REGENERATED from UtfCodec.h/.cpp. Model tied to the code by differential execution under ASan: every UTF-8 string of <=3 bytes (exhaustive, 16.8M), boundary-structured longer strings, UTF-16/32 boundary products, gr_make_seg char-infos.",
        note="Trusted: Lean kernel + [propext, Classical.choice, Quot.sound]; extractor for Gen.Utf; hand-written Model/Utf.lean tied by finite differential runs; Spec/Utf.lean validated against Python's strict codecs through the predicate on implementation outputs. Whole-segment equality across encodings is reduced to equality of the decoded scalar list.",
        technique="Lean 4 refinement proof (decoder loops = Unicode spec scan) over a model with regenerated tables; exhaustive/differential ASan correspondence",
        ref="§6 C11"),
    "C12": dict(
        text="Proof (Lean 4 kernel): for every encoding, every nChars and every caller memory that contains a NUL unit, the model of process_utf_data never reads outside that memory (so not beyond the terminator when the buffer ends there) and yields exactly the char-infos of the specification relation Reads: one per character consumed, stopping at the NUL or at nChars; stable under over-estimated nChars. Tied to the code by gr_make_seg on heap buffers ending at the terminator under ASan with nChars up to +4096 / 2^20.",
        note="Trusted: as C11. The model is of the repaired loop (fix commit for D-1).",
        technique="Lean 4 refinement proof (readText refines Reads) + ASan exact-buffer correspondence through gr_make_seg",
        ref="§6 C12"),
    "C13": dict(
        text="Proof (Lean 4 kernel), partial: for EVERY cmap table and subtable offset accepted by the model of CheckCmapSubtable4 / CheckCmapSubtable12, the format-4 lookup (binary search, four parallel arrays, idRangeOffset indirection with its length guard) and the format-12 lookup never read outside the table, for every code point and every valid range key. The functional clauses - each path gives the glyph the OpenType rules assign, cached = direct - are decided per table by EXHAUSTIVE comparison over all 0x110000 code points (model vs implementation vs an OpenType reference written from the spec) on shipped cmap tables and synthesised format-4/12 subtables (many segments, wrapping deltas, idRangeOffset arrays with zero entries, block-boundary code points, BMP-only and BMP+SMP, consistent and inconsistent), plus mutated tables for memory safety; not yet by a theorem.",
        note="Trusted: Lean kernel + [propext, Classical.choice, Quot.sound]; hand-written Model/Cmap.lean tied by exhaustive per-table comparison under ASan; OpenType reference in tools/cmapgen.py. Not proved: lookup = spec under well-formedness, cached = direct (correspondence only); NextCodepoint/cache construction in-bounds (correspondence only); Silf pseudo-glyph fallback not covered.",
        technique="Lean 4 in-bounds proofs for all accepted tables + exhaustive 0x110000-code-point differential per table",
        ref="§6 C13"),
    "C14": dict(
        text="Proof (Lean 4 kernel), partial: for ALL input byte strings and output sizes the model of lz4::decompress (word-wise overrun copies, u32 length accumulators, size_t wrap of the space test) never reads outside the input nor stores outside the announced output size and returns at most that size (lz4_in_bounds); Face::Table construction from arbitrary bytes never faults and replaces a table only by a complete decompression of exactly the announced size with matching version word (table_all_or_nothing); header split scheme:5/size:27 with REGENERATED constants (MINMATCH, LASTLITERALS, MINCODA, MINSRCSIZE, shift, mask). The 'exactly what a reference decoder produces' and 'valid blocks decode to the plaintext' clauses are decided by correspondence only (model = implementation incl. residual output bytes; implementation vs liblz4 LZ4_decompress_safe; randomised valid encodings of shipped tables), not yet by a theorem.",
        note="Trusted: Lean kernel + [propext, Classical.choice, Quot.sound]; extractor for Gen.Lz4; hand-written Model/Lz4.lean tied by finite differential runs under ASan; LP64 word size; liblz4 as reference. Not proved: functional equality with the block-format spec (lz4_sound/lz4_complete); whole-font shaping equality of compressed vs uncompressed fonts.",
        technique="Lean 4 invariant proof (in-bounds for all inputs) over a faithful word-copy model + differential ASan correspondence + liblz4 reference comparison",
        ref="§6 C14"),
    "C17": dict(
        text="Proof (Lean 4 kernel), partial (interval-set sentence only): on the model of Zones (insert with its four outcode cases, separated tests, split_at/left_trim/+=; remove; find_exclusion_under; closest/track_cost/test_position incl. the IEEE behaviour of smx/sm for sm = 0) - zones_inv: after initialise with a non-empty range and ANY sequence of excludes and weighted inserts the interval list is sorted, pairwise disjoint, non-empty and inside its bounds; excluded_never_offered: once (a,b) was excluded, whatever operations follow, closest never finds a position strictly inside it; closest_mem: a found position lies in an interval of the set, for arbitrary (zero, negative) cost coefficients. Tied to the real Zones class by thousands of random operation sequences on integer grids (exact float arithmetic) comparing interval lists, cost coefficients and closest results.",
        note="Trusted: Lean kernel + [propext, Classical.choice, Quot.sound]; hand-written Model/Zones.lean (end points Int, costs Rat) tied by finite differential runs; float rounding not modelled (inputs chosen exact; inexact divisions compared approximately and counted). NOT covered by any theorem: ShiftCollider/KernCollider geometry - limit containment of the accumulated offset and truth of the 'resolved' verdict (octabox separation); these clauses are not yet checked by this machinery.",
        technique="Lean 4 invariant proofs over all operation sequences of the interval-set model + differential operation sequences on the real class",
        ref="§6 C17"),
    "C18": dict(
        text="Proof (Lean 4 kernel): on the model of the feature packing (FeatureRef constructor with its byte/short field widths, applyValToFeature with resize, getFeatureVal) - set succeeds iff v <= max (any 16-bit value when the feature has no settings), a failed set changes nothing, get-after-set returns the value, a set leaves every other feature unchanged (bit-level field lemmas by testBit extensionality); alloc_disjoint/loaded_isolated: every packing the loader accepts gives well-formed pairwise disjoint bit fields (the loader refuses tables needing more than 255 words - fix commit); history_refines: after ANY sequence of set operations every feature reads what a plain map feature->value holds; language lookups zero-pad the tag (padding chain REGENERATED, shared with C20) and unknown languages give the defaults. Byte-level Feat/Sill parsers, defaults, Sill overrides, clone and for_lang are tied to the code by histories of set/get/clone/for_lang/dump on a callback face with synthesised tables (v1/v2 layouts, widths around every power of two, 100-300 features, malformed tables) under ASan, compared with the model and with an abstract map reference.",
        note="Trusted: Lean kernel + [propext, Classical.choice, Quot.sound]; hand-written Model/Feat.lean tied by finite differential runs; mask_over_val/bit_set_count modelled by meaning (needBits), validated for boundary (quick) / all (thorough) 16-bit maxima. Not covered: feature/setting labels from the name table (NameTable.cpp) and their three encodings; Sill parsing has no theorem of its own (correspondence only).",
        technique="Lean 4 bit-field proofs + refinement of operation histories to an abstract map; differential histories on a callback face",
        ref="§6 C18"),
    "C20": dict(
        text="Proof (Lean 4 kernel) that the model of gr_str_to_tag on a buffer ending at the NUL never reads outside it and returns the big-endian zero-padded tag for all byte values; that gr_tag_to_str stores exactly cells 0..3; round trip on four-character tags; the padding if-chain REGENERATED from gr_face.cpp/gr_segment.cpp zeroes trailing spaces for every tag, is idempotent, and the two source copies are equal. Model tied to the code by differential execution on exact-size heap buffers under ASan (all strings of length<=2 over 256 byte values, boundary bytes up to length 8, 4-byte and 8-byte output buffers).",
        note="Trusted: Lean kernel + [propext, Classical.choice, Quot.sound]; extractor for Gen.Pads; hand-written Model/Tag.lean tied only by finite differential runs; tag-taking entry points (lang/feature lookups) are covered with C18.",
        technique="Lean 4 theorems over a hand-written model + regenerated padding chain; ASan exact-buffer correspondence",
        ref="§6 C20"),
}

NOT_YET = {}


def main():
    props = [json.loads(l) for l in (ROOT / "properties.jsonl").read_text().splitlines() if l.strip()]
    commits = []
    try:
        out = subprocess.run(["git", "-C", "/repo", "log", "--format=%h %s"], capture_output=True, text=True).stdout
        commits = [l.split()[0] for l in out.splitlines() if l.split(" ", 1)[1].startswith("verif-hook:")]
    except Exception:
        pass
    m = {
        "version": 1,
        "setup_cmd": "python3 tools/check.py --setup",
        "hooks": {"guard": "GRAPHITE2_VERIF",
                  "enable": "checks compile /repo/src/*.cpp themselves with -DGRAPHITE2_VERIF (tools/lib.py BASE_FLAGS); the CMake build never defines it",
                  "baseline_off_cmd": "cmake --build /repo/_build && ctest --test-dir /repo/_build -j8 --timeout 900",
                  "source_commits": commits, "add_only": True},
        "engines": [{"name": "lean-model", "path": "lean/", "serves_properties": sorted(CHECKS), "kind_free_text": "Lean 4 model + theorems (lake project GrVerif), line-protocol driver grdriver"},
                    {"name": "correspondence", "path": "tools/check.py", "serves_properties": sorted(CHECKS), "kind_free_text": "extractor (source -> Gen/*.lean), C++ harnesses built from /repo with ASan/UBSan, generators, differ"}],
        "checks": [],
        "not_applicable": [],
        "notes": "One command per property: python3 tools/check.py Cxx --tier quick|thorough. See DESIGN.md.",
    }
    for p in props:
        i = p["id"]
        if i in CHECKS:
            c = CHECKS[i]
            m["checks"].append({
                "property_id": i,
                "quick_cmd": "python3 tools/check.py %s --tier quick" % i,
                "thorough_cmd": "python3 tools/check.py %s --tier thorough" % i,
                "evidence_file": "evidence/%s.json" % i,
                "replay_cmd_template": "python3 tools/check.py %s --replay {path}" % i,
                "engine": "lean-model",
                "level_claimed": {"category": "proof", "text": c["text"], "design_ref": c["ref"]},
                "level_note": c["note"],
                "technique": c["technique"],
            })
        else:
            m["not_applicable"].append({"property_id": i, "reason": NOT_YET.get(i, "not claimed yet: the model, theorems and harness for this property are not built in this revision (planned, DESIGN.md §10); the technique applies")})
    (ROOT / "MANIFEST.json").write_text(json.dumps(m, indent=1) + "\n")


if __name__ == "__main__":
    main()

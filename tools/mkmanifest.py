#!/usr/bin/env python3
"""Writes MANIFEST.json from the table below (keeps it schema-valid)."""
import json
import subprocess
from pathlib import Path
ROOT = Path(__file__).resolve().parent.parent

CHECKS = {
    "C20": dict(
        text="Proof (Lean 4 kernel) that the model of gr_str_to_tag on a buffer ending at the NUL never reads outside it and returns the big-endian zero-padded tag for all byte values; that gr_tag_to_str stores exactly cells 0..3; round trip on four-character tags; the padding if-chain REGENERATED from gr_face.cpp/gr_segment.cpp zeroes trailing spaces for every tag, is idempotent, and the two source copies are equal. Model tied to the code by differential execution on exact-size heap buffers under ASan (all strings of length<=2 over 256 byte values, boundary bytes up to length 8, 4-byte and 8-byte output buffers).",
        note="Trusted: Lean kernel + [propext, Classical.choice, Quot.sound]; extractor for Gen.Pads; hand-written Model/Tag.lean tied only by finite differential runs; tag-taking entry points (lang/feature lookups) are covered with C18.",
        technique="Lean 4 theorems over a hand-written model + regenerated padding chain; ASan exact-buffer correspondence",
        ref="§6 C20"),
}

NOT_YET = {}


def main():
    props = [json.loads(l) for l in (ROOT / "properties.jsonl").read_text().splitlines() if l.strip()]
    commits = []
    try:
        out = subprocess.run(["git", "-C", "/repo", "log", "--format=%h %s"], capture_output=True, text=True).stdout
        commits = [l.split()[0] for l in out.splitlines() if l.split(" ", 1)[1].startswith("verif-hook:")]
    except Exception:
        pass
    m = {
        "version": 1,
        "setup_cmd": "python3 tools/check.py --setup",
        "hooks": {"guard": "GRAPHITE2_VERIF",
                  "enable": "checks compile /repo/src/*.cpp themselves with -DGRAPHITE2_VERIF (tools/lib.py BASE_FLAGS); the CMake build never defines it",
                  "baseline_off_cmd": "cmake --build /repo/_build && ctest --test-dir /repo/_build -j8 --timeout 900",
                  "source_commits": commits, "add_only": True},
        "engines": [{"name": "lean-model", "path": "lean/", "serves_properties": sorted(CHECKS), "kind_free_text": "Lean 4 model + theorems (lake project GrVerif), line-protocol driver grdriver"},
                    {"name": "correspondence", "path": "tools/check.py", "serves_properties": sorted(CHECKS), "kind_free_text": "extractor (source -> Gen/*.lean), C++ harnesses built from /repo with ASan/UBSan, generators, differ"}],
        "checks": [],
        "not_applicable": [],
        "notes": "One command per property: python3 tools/check.py Cxx --tier quick|thorough. See DESIGN.md.",
    }
    for p in props:
        i = p["id"]
        if i in CHECKS:
            c = CHECKS[i]
            m["checks"].append({
                "property_id": i,
                "quick_cmd": "python3 tools/check.py %s --tier quick" % i,
                "thorough_cmd": "python3 tools/check.py %s --tier thorough" % i,
                "evidence_file": "evidence/%s.json" % i,
                "replay_cmd_template": "python3 tools/check.py %s --replay {path}" % i,
                "engine": "lean-model",
                "level_claimed": {"category": "proof", "text": c["text"], "design_ref": c["ref"]},
                "level_note": c["note"],
                "technique": c["technique"],
            })
        else:
            m["not_applicable"].append({"property_id": i, "reason": NOT_YET.get(i, "not claimed yet: the model, theorems and harness for this property are not built in this revision (planned, DESIGN.md §10); the technique applies")})
    (ROOT / "MANIFEST.json").write_text(json.dumps(m, indent=1) + "\n")


if __name__ == "__main__":
    main()

"""opcodes.h -> Lean: translation of the scalar stack-machine opcode bodies (DESIGN.md §3a, Gen.OpcodeSem).

Accepted C++ subset: `const T x = e, y = e;` declarations, `*sp = e;`, `push(e);`, `if (e) stmt`, `DIE`, `EXIT(e)`,
`declare_params(n);`, `use_params(n);`, `do {} while (0);`, expressions over integer literals, `param[i]`, `*param`, `*sp`,
`pop()`, casts `T(e)`, unary `- ! ~`, binary `* / + - << >> < > <= >= == != & ^ | && ||`, `?:`, and
`std::numeric_limits<int32>::min()`.  C++ integer typing is followed: operands narrower than int promote to int32, a
uint32 operand makes the operation unsigned, results are wrapped to the type they are stored in.
"""
import re

SCALAR = ['nop', 'push_byte', 'push_byte_u', 'push_short', 'push_short_u', 'push_long', 'add', 'sub', 'mul', 'div_', 'min_', 'max_',
          'neg', 'trunc8', 'trunc16', 'cond', 'and_', 'or_', 'not_', 'equal', 'not_eq_', 'less', 'gtr', 'less_eq', 'gtr_eq',
          'pop_ret', 'ret_zero', 'ret_true', 'push_proc_state', 'push_version', 'band', 'bor', 'bnot', 'setbits']

# the primitives whose meaning is fixed in Model/VmPrelude.lean: their #define text must be exactly this (whitespace-insensitive)
EXPECTED_MACROS = {
    'binop': ('op', 'const uint32 a = pop(); *sp = uint32(*sp) op a'),
    'sbinop': ('op', 'const int32 a = pop(); *sp = int32(*sp) op a'),
    'use_params': ('n', 'dp += n'),
    'declare_params': ('n', 'const byte * param = dp; use_params(n);'),
    'push': ('n', '{ *++sp = n; }'),
    'pop': ('', '(*sp--)'),
    'DIE': (None, '{ is=seg.last(); status = Machine::died_early; EXIT(1); }'),
}


class TransError(Exception):
    pass


def squash(s):
    return re.sub(r'\s+', '', s)


def read_macros(src):
    macros = {}
    for m in re.finditer(r'#define[ \t]+(\w+)(\(([^)]*)\))?[ \t]+((?:.*\\\n)*.*)', src):
        body = re.sub(r'\\\n', ' ', m.group(4)).strip()
        macros[m.group(1)] = (m.group(3).strip() if m.group(2) else None, body)
    return macros


TOK = re.compile(r'\s*(?:(0[xX][0-9a-fA-F]+|\d+)|(std::numeric_limits<int32>::min\(\))|([A-Za-z_]\w*)|(<<|>>|<=|>=|==|!=|&&|\|\||[-+*/%<>=!~&|^?:;,(){}\[\]]))')


def tokens(s):
    s = re.sub(r'//.*', '', s)
    pos = 0
    out = []
    while pos < len(s):
        m = TOK.match(s, pos)
        if not m:
            if s[pos:].strip() == '':
                break
            raise TransError('cannot tokenise: ' + s[pos:pos + 30].strip())
        pos = m.end()
        if m.group(1):
            out.append(('num', int(m.group(1), 0)))
        elif m.group(2):
            out.append(('num', -2147483648))
        elif m.group(3):
            out.append(('id', m.group(3)))
        else:
            out.append(('op', m.group(4)))
    return out


TYPES = {'int8', 'uint8', 'int16', 'uint16', 'int32', 'uint32', 'int', 'byte', 'size_t', 'uint32_t', 'int32_t', 'bool'}
CASTFN = {'int8': 'i8', 'uint8': 'u8', 'int16': 'i16', 'uint16': 'u16', 'int32': 'i32', 'uint32': 'u32', 'bool': 'b2i'}


def norm(t):
    return {'byte': 'uint8', 'int': 'int32', 'int32_t': 'int32', 'uint32_t': 'uint32'}.get(t, t)


def cast(t, e):
    if t == 'bool':
        return '(b2i (decide (%s ≠ 0)))' % e
    return '(%s %s)' % (CASTFN[t], e)


def arith(ta, tb):
    ta, tb = norm(ta), norm(tb)
    return 'uint32' if 'uint32' in (ta, tb) else 'int32'


class P:
    def __init__(s, toks):
        s.t = toks
        s.i = 0
        s.env = {}
        s.out = []
        s.tmp = 0

    def peek(s):
        return s.t[s.i] if s.i < len(s.t) else ('eof', None)

    def eat(s, kind=None, val=None):
        k, v = s.peek()
        if (kind and k != kind) or (val is not None and v != val):
            raise TransError('expected %s %s got %s %s' % (kind, val, k, v))
        s.i += 1
        return v

    def fresh(s):
        s.tmp += 1
        return 't%d' % s.tmp

    def primary(s):
        k, v = s.peek()
        if k == 'num':
            s.i += 1
            return (str(v) if v >= 0 else '(%d)' % v, 'int32')
        if k == 'op' and v == '(':
            s.i += 1
            e = s.expr()
            s.eat('op', ')')
            return e
        if k == 'op' and v == '*':
            s.i += 1
            n = s.eat('id')
            if n == 'param':
                x = s.fresh()
                s.out.append('let %s ← param pbase 0' % x)
                return (x, 'uint8')
            if n != 'sp':
                raise TransError('dereference of ' + n)
            x = s.fresh()
            s.out.append('let %s ← top' % x)
            return (x, 'int32')
        if k == 'id':
            s.i += 1
            if v in TYPES and s.peek() == ('op', '('):
                s.i += 1
                e, _ = s.expr()
                s.eat('op', ')')
                return (cast(norm(v), e), norm(v))
            if v == 'pop':
                s.eat('op', '(')
                s.eat('op', ')')
                x = s.fresh()
                s.out.append('let %s ← pop' % x)
                return (x, 'int32')
            if v == 'param':
                s.eat('op', '[')
                idx, _ = s.expr()
                s.eat('op', ']')
                x = s.fresh()
                s.out.append('let %s ← param pbase %s' % (x, idx))
                return (x, 'uint8')
            if v == 'true':
                return ('1', 'bool')
            if v == 'false':
                return ('0', 'bool')
            if v in s.env:
                return (v + '_', s.env[v])
            raise TransError('unknown identifier ' + v)
        raise TransError('unexpected token %s %s' % (k, v))

    def unary(s):
        k, v = s.peek()
        if k == 'op' and v in ('-', '!', '~'):
            s.i += 1
            e, t = s.unary()
            if v == '!':
                return ('(b2i (decide (%s = 0)))' % e, 'bool')
            rt = arith(t, t)
            if v == '-':
                return (cast(rt, '(- %s)' % e), rt)
            return (cast(rt, '(bnot32 %s)' % e), rt)
        return s.primary()

    LEVELS = [['||'], ['&&'], ['|'], ['^'], ['&'], ['==', '!='], ['<', '>', '<=', '>='], ['<<', '>>'], ['+', '-'], ['*', '/', '%']]

    def binary(s, lvl=0):
        if lvl == len(s.LEVELS):
            return s.unary()
        l = s.binary(lvl + 1)
        while s.peek()[0] == 'op' and s.peek()[1] in s.LEVELS[lvl]:
            op = s.eat('op')
            r = s.binary(lvl + 1)
            l = s.mk(op, l, r)
        return l

    def mk(s, op, l, r):
        (a, ta), (b, tb) = l, r
        if op == '&&':
            return ('(b2i (decide (%s ≠ 0 ∧ %s ≠ 0)))' % (a, b), 'bool')
        if op == '||':
            return ('(b2i (decide (%s ≠ 0 ∨ %s ≠ 0)))' % (a, b), 'bool')
        ct = arith(ta, tb)
        ca = cast(ct, a) if norm(ta) != ct else a
        cb = cast(ct, b) if norm(tb) != ct else b
        if op in ('==', '!=', '<', '>', '<=', '>='):
            return ('(b2i (decide (%s %s %s)))' % (ca, {'==': '=', '!=': '≠', '<=': '≤', '>=': '≥'}.get(op, op), cb), 'bool')
        if op in ('<<', '>>'):
            # the result type of a shift is that of the promoted left operand
            lt = arith(ta, ta)
            la = cast(lt, a) if norm(ta) != lt else a
            f = 'shl32 %s %s' if op == '<<' else 'shr32 %s %s'
            return (cast(lt, '(' + f % (la, b) + ')'), lt)
        f = {'+': '%s + %s', '-': '%s - %s', '*': '%s * %s', '/': 'cdiv %s %s', '%': 'cmod %s %s', '&': 'band32 %s %s', '|': 'bor32 %s %s', '^': 'bxor32 %s %s'}[op]
        return (cast(ct, '(' + f % (ca, cb) + ')'), ct)

    def expr(s):
        c = s.binary()
        if s.peek() == ('op', '?'):
            s.i += 1
            a = s.expr()
            s.eat('op', ':')
            b = s.expr()
            t = arith(a[1], b[1])
            ca = cast(t, a[0]) if norm(a[1]) != t else a[0]
            cb = cast(t, b[0]) if norm(b[1]) != t else b[0]
            return ('(if %s ≠ 0 then %s else %s)' % (c[0], ca, cb), t)
        return c

    def block(s):
        save = s.out
        s.out = []
        s.stmt()
        body = s.out
        s.out = save
        return body or ['pure ()']

    def stmt(s):
        k, v = s.peek()
        if k == 'op' and v == ';':
            s.i += 1
            return
        if k == 'op' and v == '{':
            s.i += 1
            while s.peek() != ('op', '}'):
                s.stmt()
            s.i += 1
            return
        if k == 'id' and v == 'do':       # `do {} while (0);`
            s.i += 1
            s.eat('op', '{'); s.eat('op', '}'); s.eat('id', 'while'); s.eat('op', '('); s.eat('num', 0); s.eat('op', ')'); s.eat('op', ';')
            return
        if k == 'id' and v == 'const':
            s.i += 1
            k, v = s.peek()
        if k == 'id' and v in TYPES:
            s.i += 1
            t = norm(v)
            while True:
                name = s.eat('id')
                s.eat('op', '=')
                e, te = s.expr()
                s.out.append('let %s_ := %s' % (name, cast(t, e) if norm(te) != t else e))
                s.env[name] = t
                if s.peek() == ('op', ','):
                    s.i += 1
                    continue
                break
            s.eat('op', ';')
            return
        if k == 'op' and v == '*':
            s.i += 1
            if s.eat('id') != 'sp':
                raise TransError('store through something other than sp')
            s.eat('op', '=')
            e, te = s.expr()
            s.eat('op', ';')
            s.out.append('setTop %s' % (cast('int32', e) if norm(te) != 'int32' else e))
            return
        if k == 'id' and v == 'push':
            s.i += 1
            s.eat('op', '(')
            e, te = s.expr()
            s.eat('op', ')')
            s.out.append('push %s' % (cast('int32', e) if norm(te) != 'int32' else e))
            if s.peek() == ('op', ';'):
                s.i += 1
            return
        if k == 'id' and v == 'declare_params':
            s.i += 1
            s.eat('op', '(')
            n = s.eat('num')
            s.eat('op', ')')
            s.eat('op', ';')
            s.out.append('let pbase ← declareParams %d' % n)
            return
        if k == 'id' and v == 'use_params':
            s.i += 1
            s.eat('op', '(')
            n = s.eat('num')
            s.eat('op', ')')
            s.eat('op', ';')
            s.out.append('useParams %d' % n)
            return
        if k == 'id' and v == 'DIE':
            s.i += 1
            s.out.append('die')
        elif k == 'id' and v == 'EXIT':
            s.i += 1
            s.eat('op', '(')
            e, te = s.expr()
            s.eat('op', ')')
            s.out.append('exit %s' % (cast('int32', e) if norm(te) != 'int32' else e))
        elif k == 'id' and v == 'if':
            s.i += 1
            s.eat('op', '(')
            c, _ = s.expr()
            s.eat('op', ')')
            body = s.block()
            if s.peek() == ('id', 'else'):
                s.i += 1
                eb = s.block()
                s.out.append('if %s ≠ 0 then do\n      ' % c + '\n      '.join(body) + '\n    else do\n      ' + '\n      '.join(eb))
            else:
                s.out.append('if %s ≠ 0 then do\n      ' % c + '\n      '.join(body))
            return
        else:
            raise TransError('statement starting with %s %s' % (k, v))
        if s.peek() == ('op', ';'):
            s.i += 1


def translate(opcodes_h):
    """Returns (lean text of the opcode bodies, dict name -> status)."""
    macros = read_macros(opcodes_h)
    for name, (params, body) in EXPECTED_MACROS.items():
        if name not in macros:
            raise TransError('macro %s is no longer defined in opcodes.h' % name)
        gp, gb = macros[name]
        if squash(gb) != squash(body) or (params is not None and (gp or '') != params):
            raise TransError('macro %s changed: `%s` (the model prelude fixes its meaning as `%s`)' % (name, gb, body))
    blocks = dict((m.group(1), m.group(2)) for m in re.finditer(r'STARTOP\((\w+)\)(.*?)ENDOP', opcodes_h, re.S))

    def expand(body):
        for name in ('binop', 'sbinop'):
            params, repl = macros[name]
            body = re.sub(r'\b' + name + r'\(([^)]*)\)', lambda m: re.sub(r'\b' + params + r'\b', m.group(1), repl), body)
        return body
    out = []
    status = {}
    for name in SCALAR:
        if name not in blocks:
            raise TransError('opcode body %s not found' % name)
        body = expand(blocks[name])
        p = P(tokens(body))
        try:
            while p.peek()[0] != 'eof':
                p.stmt()
        except TransError as e:
            raise TransError('opcode %s: %s' % (name, e))
        lines = p.out or ['pure ()']
        out.append('def op_%s : VmM Unit := do\n  ' % name + '\n  '.join(lines))
        status[name] = 'translated'
    return '\n\n'.join(out), sorted(blocks)

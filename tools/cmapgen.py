"""Synthesised cmap tables (format 4 / format 12) and an independent OpenType reference lookup (numpy)."""
import struct


def fmt4(segs):
    """segs: list of (start, end, kind, payload); kind 'delta' payload=delta ; kind 'array' payload=list of glyph ids (len end-start+1).
    The caller supplies the final 0xFFFF segment."""
    n = len(segs)
    ends = [s[1] for s in segs]
    starts = [s[0] for s in segs]
    deltas = []
    offs = []
    garr = []
    for i, (st, en, kind, pl) in enumerate(segs):
        if kind == "delta":
            deltas.append(pl & 0xffff)
            offs.append(0)
        else:
            deltas.append(pl[0] & 0xffff if isinstance(pl, tuple) else 0)
            arr = pl[1] if isinstance(pl, tuple) else pl
            # idRangeOffset is relative to its own position in the idRangeOffset array
            pos_in_words = (n - i) + len(garr)
            offs.append(pos_in_words * 2)
            garr += list(arr)
    body = struct.pack(">%dH" % n, *ends) + struct.pack(">H", 0) + struct.pack(">%dH" % n, *starts) + \
        struct.pack(">%dH" % n, *deltas) + struct.pack(">%dH" % n, *offs) + struct.pack(">%dH" % len(garr), *garr)
    length = 14 + len(body)
    return struct.pack(">HHHHHHH", 4, length & 0xffff, 0, n * 2, 0, 0, 0) + body


def fmt12(groups):
    n = len(groups)
    return struct.pack(">HHIII", 12, 0, 16 + 12 * n, 0, n) + b"".join(struct.pack(">III", s, e, g) for s, e, g in groups)


def cmap_table(subtables):
    """subtables: list of (platform, encoding, bytes)"""
    n = len(subtables)
    hdr = struct.pack(">HH", 0, n)
    off = 4 + 8 * n
    recs = b""
    body = b""
    for p, e, b in subtables:
        recs += struct.pack(">HHI", p, e, off + len(body))
        body += b
    return hdr + recs + body


M64 = (1 << 64) - 1
K = 2654435761
C = 12345
N = 0x110000
BASE = (K * (N * (N - 1) // 2) + C * N) & M64          # sum over all code points of (usv*K + C): every glyph id 0


def ref_pairs(segs, groups):
    """OpenType semantics: format 12 for > 0xFFFF, format 4 for the BMP, 0 when unmapped.  Yields (usv, gid != 0)."""
    if segs is not None:
        for st, en, kind, pl in segs:
            for u in range(st, en + 1):
                if kind == "delta":
                    g = (u + pl) & 0xffff
                else:
                    delta = pl[0] & 0xffff if isinstance(pl, tuple) else 0
                    arr = pl[1] if isinstance(pl, tuple) else pl
                    g0 = arr[u - st]
                    g = (g0 + delta) & 0xffff if g0 else 0
                if g:
                    yield u, g
    if groups is not None:
        for s, e, g0 in groups:
            for u in range(max(s, 0x10000), min(e, 0x10ffff) + 1):
                g = (g0 + (u - s)) & 0xffff
                if g:
                    yield u, g


def digest_of(pairs):
    h = BASE
    for u, g in pairs:
        h = (h + g * (u * K + C)) & M64
    return h

#!/usr/bin/env python3
"""Single entry point:  check.py <Cxx> --tier quick|thorough [--replay file]   |   check.py --setup

Per property (DESIGN.md §2): regenerate Gen/ from /repo, build the property's theorems and the model
driver, audit axioms, build the real code from the current working tree (ASan+UBSan), run the
correspondence (same inputs through model and implementation), evaluate the property predicate on the
implementation's own outputs, decide, write evidence.
"""
import argparse
import importlib
import json
import os
import sys
import time
import traceback
from pathlib import Path

sys.path.insert(0, str(Path(__file__).resolve().parent))
import lib      # noqa: E402
import extract  # noqa: E402


def setup():
    t = time.time()
    res = extract.run()
    print("extract:", res)
    ok, log, dt = lib.lake_build(["GrVerif", "grdriver"])
    print(log[-3000:])
    print("setup: lake build %s in %.0fs (total %.0fs)" % ("ok" if ok else "FAILED", dt, time.time() - t))
    # a failed build here is not a setup failure: the per-property checks report it as a broken obligation
    return 0


class Ctx:
    def __init__(self, prop, tier, seed):
        self.prop, self.tier, self.seed = prop, tier, seed
        self.notes = []
        self.model_ok = True      # grdriver built
        self.proof_ok = True      # Props module built and audit clean
        self.broken = []          # names of theorems / gen modules / correspondences that no longer check

    def quick(self):
        return self.tier == "quick"


def main():
    ap = argparse.ArgumentParser()
    ap.add_argument("prop", nargs="?")
    ap.add_argument("--tier", default=os.environ.get("VERIF_TIER", "quick"), choices=["quick", "thorough"])
    ap.add_argument("--setup", action="store_true")
    ap.add_argument("--replay")
    a = ap.parse_args()
    if a.setup:
        return setup()
    prop = a.prop
    mod = importlib.import_module("props." + prop.lower())
    t0 = time.time()
    ctx = Ctx(prop, a.tier, lib.seed())
    ev_path = lib.EVID / (prop + ".json")
    if a.replay:
        return replay(mod, ctx, a.replay)

    # 1. regenerate Gen/
    ex = extract.run()
    gen_errors = {k: v for k, v in ex.items() if v.startswith("ERROR")}
    needed = set(getattr(mod, "GEN_MODULES", []))
    for k, v in gen_errors.items():
        if k in needed:
            ctx.broken.append({"kind": "translator", "module": "Gen." + k, "error": v})
            ctx.proof_ok = False

    # 2. build theorems + driver
    okd, logd, dt1 = lib.lake_build(["grdriver"])
    if not okd:
        ctx.model_ok = False
        ctx.broken.append({"kind": "model-build", "target": "grdriver", "error": first_error(logd)})
    okp, logp, dt2 = lib.lake_build(["GrVerif.Props." + prop])
    if not okp:
        ctx.proof_ok = False
        ctx.broken.append({"kind": "theorem", "module": "GrVerif.Props." + prop, "error": first_error(logp)})
    # further modules of property theorems (named by the property's check; audited through the same Audit/Axioms file)
    for extra in getattr(mod, "EXTRA_PROPS", []):
        oke, loge, dte = lib.lake_build([extra])
        dt2 += dte
        if not oke:
            okp = False
            ctx.proof_ok = False
            ctx.broken.append({"kind": "theorem", "module": extra, "error": first_error(loge)})

    # 3. audit
    forb = lib.grep_forbidden()
    if forb:
        ctx.proof_ok = False
        ctx.broken.append({"kind": "audit", "error": "forbidden construct in Lean sources", "hits": forb[:10]})
    wanted, thms, bad, alog = ([], {}, {}, "")
    if okp:
        wanted, thms, bad, alog = lib.audit_axioms(prop)
        if bad:
            ctx.proof_ok = False
            ctx.broken.append({"kind": "audit", "error": "axiom audit failed", "theorems": bad, "log": alog[-1500:]})
    checker = None
    if a.tier == "thorough" and okp:
        okc, logc = lib.leanchecker("GrVerif.Props." + prop)
        for extra in getattr(mod, "EXTRA_PROPS", []):
            if okc:
                okc, logc = lib.leanchecker(extra)
        checker = okc
        if not okc:
            ctx.proof_ok = False
            ctx.broken.append({"kind": "leanchecker", "error": logc})

    # 4./5. implementation build + correspondence + property predicate on the implementation
    try:
        res = mod.run(ctx)
    except lib.BuildError as e:
        res = {"build_error": str(e)}
    except Exception:
        res = {"build_error": "check crashed:\n" + traceback.format_exc()}

    # 6. verdict
    kf = lib.known_findings()
    open_kf = [k for k in kf.get("open", []) if k["property"] == prop]
    violations = []       # (summary, replay-object)
    known_hits = {}
    if "build_error" in res:
        violations.append(("the implementation or its harness no longer builds: no-failing-input-found",
                           {"kind": "build", "error": res["build_error"][-3000:]}))
    else:
        for f in res.get("failures", []):          # property predicate false on the implementation: a failing input
            k = match_known(mod, open_kf, f)
            if k:
                known_hits.setdefault(k["id"], [k, 0])[1] += 1
            else:
                violations.append(("", dict(f, kind="failing-input")))
        unexplained = [d for d in res.get("disagreements", []) if not d.get("explained_by_failure")]
        unexplained = [d for d in unexplained if not match_known(mod, open_kf, d)]
        if unexplained and not violations:
            violations.append(("no-failing-input-found", {"kind": "correspondence", "what": "model and implementation disagree, property predicate holds on the implementation's output",
                                                          "harness": res.get("harness"), "first": unexplained[:5], "count": len(unexplained)}))
        if not ctx.proof_ok and not violations:
            violations.append(("no-failing-input-found", {"kind": "proof", "what": "a proof obligation no longer checks; the search over the generated inputs found no failing input",
                                                          "broken": ctx.broken}))
        if not ctx.model_ok and ctx.proof_ok and not violations:
            violations.append(("no-failing-input-found", {"kind": "model-build", "broken": ctx.broken}))

    for kid, (k, n) in known_hits.items():
        print("KNOWN-FINDING: property=%s %s (%d reproducing inputs this run)" % (prop, k["what"], n))
    rc = 0
    if violations:
        rc = 1
        rdir = lib.EVID / "replay"
        rdir.mkdir(parents=True, exist_ok=True)
        for i, (suffix, obj) in enumerate(violations[:5]):
            rp = rdir / ("%s-%d-%d.json" % (prop, ctx.seed, i))
            obj["property"] = prop
            obj["replay_cmd"] = "python3 tools/check.py %s --replay %s" % (prop, rp)
            obj["broken"] = ctx.broken
            lib.write_json(rp, obj)
            print(("VIOLATION property=%s replay=%s %s" % (prop, rp, suffix)).rstrip())

    n_obl = len(wanted) if wanted else len(getattr(mod, "THEOREMS", [])) or 1
    n_dis = len([w for w in wanted if w in thms and w not in bad]) if ctx.proof_ok or okp else 0
    cov = {
        "obligations": n_obl, "discharged": n_dis,
        "checker_cmd": "lake build GrVerif.Props.%s && lake env lean Audit/Axioms%s.lean%s" % (prop, prop, " && lake env leanchecker GrVerif.Props." + prop if a.tier == "thorough" else ""),
        "trusted_base": ["Lean 4.33.0 kernel", "axioms used: " + ", ".join(sorted({x for v in thms.values() for x in v})) if thms else "axioms: (not audited, build failed)",
                         "tools/extract.py (source -> Gen/*.lean)", "correspondence harness + generators (differential, finite)"] + getattr(mod, "TRUSTED", []),
        "theorems": {w: thms.get(w) for w in wanted},
        "gen_modules": ex,
        "leanchecker": checker,
        "evaluations": res.get("evaluations", 0), "distinct_nontrivial": res.get("distinct_nontrivial", 0),
        "rule": res.get("rule", ""), "samples": res.get("samples", [])[:8],
        "correspondence": {k: res.get(k) for k in ("harness", "distribution", "n_disagreements", "sanitizer_faults", "impl_crashes") if k in res},
        "known_findings_reproduced": {kid: n for kid, (k, n) in known_hits.items()},
        "broken": ctx.broken,
        "lean_build_s": round(dt1 + dt2, 1),
    }
    cov.update(res.get("extra", {}))
    ev = {"property_id": prop, "tier": a.tier, "seed": ctx.seed, "level": "proof", "coverage": cov,
          "assumptions": getattr(mod, "ASSUMPTIONS", []), "wall_s": round(time.time() - t0, 1), "violations": len(violations)}
    lib.write_json(ev_path, ev)
    print("%s %s seed=%d: obligations %d/%d, evaluations %d, disagreements %s, failures %d, known %d, %.0fs -> %s" % (
        prop, a.tier, ctx.seed, n_dis, n_obl, res.get("evaluations", 0), res.get("n_disagreements"), len(res.get("failures", [])),
        sum(n for _, n in known_hits.values()), time.time() - t0, "FAIL" if rc else "ok"))
    return rc


def match_known(mod, open_kf, f):
    fn = getattr(mod, "matches_known", None)
    if not fn:
        return None
    for k in open_kf:
        if fn(k, f):
            return k
    return None


def first_error(log):
    lines = log.split("\n")
    for i, l in enumerate(lines):
        if l.startswith("error:") and "build failed" not in l and "Lean exited" not in l:
            return "\n".join(lines[i:i + 12])[:1500]
    return log[-1500:]


def replay(mod, ctx, path):
    obj = json.loads(Path(path).read_text())
    lib.lake_build(["grdriver"])
    fn = getattr(mod, "replay", None)
    if fn is None or obj.get("kind") not in ("failing-input", "correspondence"):
        print(json.dumps(obj, indent=1)[:4000])
        print("(nothing executable to replay: the replay names the obligation that no longer checks)")
        return 1
    still = fn(ctx, obj)
    print("replay: %s" % ("still failing" if still else "no longer failing"))
    return 1 if still else 0


if __name__ == "__main__":
    sys.exit(main())

"""Minimal sfnt container reader/writer used by the generators."""
import struct


def read_tables(path_or_bytes):
    data = path_or_bytes if isinstance(path_or_bytes, (bytes, bytearray)) else open(path_or_bytes, "rb").read()
    n = struct.unpack(">H", data[4:6])[0]
    tabs = {}
    for i in range(n):
        tag, _, off, ln = struct.unpack(">4sIII", data[12 + 16 * i: 28 + 16 * i])
        tabs[tag.decode("latin1")] = data[off:off + ln]
    return tabs


def write_font(tabs):
    tags = sorted(tabs)
    n = len(tags)
    hdr = struct.pack(">IHHHH", 0x00010000, n, 0, 0, 0)
    off = 12 + 16 * n
    recs = b""
    body = b""
    for t in tags:
        d = tabs[t]
        recs += struct.pack(">4sIII", t.encode("latin1"), 0, off, len(d))
        pad = (-len(d)) % 4
        body += d + b"\0" * pad
        off += len(d) + pad
    return hdr + recs + body

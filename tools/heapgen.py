"""Generator of rule-action bytecode that the real loader accepts (it tracks the loader's own bookkeeping:
out_index / out_length / slotref / stack depth of Code.cpp) over the slot-manipulating opcodes."""

NEXT, COPY_NEXT, PUT_COPY, INSERT, DELETE, ASSOC, ATTR_SET, ATTR_SET_SLOT = 25, 27, 30, 31, 32, 33, 35, 38
PUSH_BYTE, POP_RET, RET_ZERO, RET_TRUE = 1, 48, 49, 50
SLAT_ATTTO, SLAT_ADVX, SLAT_INSERT = 2, 0, 17


def gen_action(r, pre, rule_len, max_ops=14, allow=("next", "insert", "delete", "put_copy", "assoc", "attach", "attr")):
    out_index, out_length, slotref, depth = pre, rule_len, 0, 0
    prog = []
    kinds = []
    for _ in range(r.randrange(1, max_ops)):
        k = r.choice(allow)
        ctx_ok = 0 <= out_index < out_length and slotref < 255

        def ref_ok(i):
            return rule_len != 0 and 0 <= slotref + pre + i < rule_len
        if k == "next":
            if -1 <= out_index + 1 <= out_length and slotref <= rule_len:
                prog.append(r.choice([NEXT, NEXT, COPY_NEXT])); out_index += 1; slotref += 1; kinds.append(k)
        elif k == "insert":
            ol = out_length + 1
            oi = out_index + 1 if out_index < 0 else out_index
            if -1 <= oi < ol:
                prog.append(INSERT); out_length, out_index = ol, oi
                if slotref >= 0:
                    slotref -= 1
                kinds.append(k)
        elif k == "delete":
            if pre <= out_index < out_length and -1 <= out_index - 1 <= out_length - 1:
                prog.append(DELETE); out_index -= 1; out_length -= 1; kinds.append(k)
        elif k == "put_copy":
            refs = [i for i in range(-4, 5) if ref_ok(i)]
            if refs and ctx_ok:
                prog += [PUT_COPY, r.choice(refs) & 255]; kinds.append(k)
        elif k == "assoc":
            refs = [i for i in range(-4, 5) if ref_ok(i)]
            if refs and ctx_ok:
                n = r.randrange(1, 4)
                prog += [ASSOC, n] + [r.choice(refs) & 255 for _ in range(n)]; kinds.append(k)
        elif k == "attach":
            if ctx_ok:
                # attach.to takes a slot-map index (attr_set) or an offset relative to the map (attr_set_slot)
                if r.random() < 0.5:
                    prog += [PUSH_BYTE, r.randrange(0, rule_len + 2), ATTR_SET, SLAT_ATTTO]
                else:
                    prog += [PUSH_BYTE, r.randrange(-3, 4) & 255, ATTR_SET_SLOT, SLAT_ATTTO]
                kinds.append(k)
        elif k == "attr":
            if ctx_ok:
                m = r.random()
                refs = [i for i in range(-4, 5) if ref_ok(i)]
                if m < 0.25:
                    # attr_add / attr_sub: not idempotent, so a pass that runs twice shows (advance / attach offset / shift, x and y)
                    prog += [PUSH_BYTE, r.randrange(256), r.choice([36, 36, 37]), r.choice([SLAT_ADVX, 1, 3, 4, 20, 21])]; kinds.append(k)
                elif m < 0.45 and refs:
                    # the value comes from another slot of the rule (push_slot_attr) or from a glyph attribute of it (push_glyph_attr):
                    # a slot that was changed earlier in the rule and is read here makes the loader insert a temp_copy for it
                    if r.random() < 0.6:
                        prog += [40, r.choice([SLAT_ADVX, 1, 3, 4, 20, 21, 2]), r.choice(refs) & 255]
                    else:
                        prog += [60, 0, r.choice([0, 2, 3]), r.choice(refs) & 255]
                    prog += [ATTR_SET, r.choice([SLAT_ADVX, 1, 3, 4, 20, 21])]; kinds.append(k)
                else:
                    prog += [PUSH_BYTE, r.randrange(256), ATTR_SET, r.choice([SLAT_ADVX, SLAT_INSERT, 1, 3, 4, 20, 21])]; kinds.append(k)
    if r.random() < 0.5:
        prog += [PUSH_BYTE, r.randrange(-2, 3) & 255, POP_RET]
    else:
        prog.append(r.choice([RET_ZERO, RET_TRUE]))
    return prog, kinds

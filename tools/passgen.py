"""Pass sub-tables for the loader checks (C01): taken out of shipped and synthesised fonts, and mutated."""
import struct


def silf_passes(silf):
    """[(subtable_base, pass bytes)] of the first Silf sub-table of an uncompressed Silf table (versions 2..5); [] if the table
    cannot be walked"""
    try:
        version = struct.unpack(">I", silf[0:4])[0]
        p = 4
        if version >= 0x00030000:
            p += 4
        nsub = struct.unpack(">H", silf[p:p + 2])[0]
        p += 4
        if nsub < 1:
            return []
        off = struct.unpack(">I", silf[p:p + 4])[0]
        end = struct.unpack(">I", silf[p + 4:p + 8])[0] if nsub > 1 else len(silf)
        sub = silf[off:end]
        q = 0
        if version >= 0x00030000:
            q += 4 + 2 + 2              # ruleVersion, passOffset, pseudosOffset
        q += 2 + 2 + 2                  # maxGlyph, extraAscent, extraDescent
        npasses = sub[q]
        q += 1 + 4 + 1 + 2 + 4 + 1      # passes; iSubst iPos iJust iBidi; flags; maxPre maxPost; 4 attrs; attrSkipPasses
        njl = sub[q]
        q += 1 + 8 * njl
        q += 2 + 1 + 1 + 1 + 1 + 3      # numLigComp, numUserDefn, maxCompPerLig, direction, attCollisions, reserved x3
        ncrit = sub[q]
        q += 1 + 2 * ncrit + 1
        nscript = sub[q]
        q += 1 + 4 * nscript + 2
        offs = [struct.unpack(">I", sub[q + 4 * i:q + 4 * i + 4])[0] for i in range(npasses + 1)]
        out = []
        for i in range(npasses):
            if 0 <= offs[i] <= offs[i + 1] <= len(sub):
                out.append((offs[i], sub[offs[i]:offs[i + 1]]))
        return out
    except Exception:
        return []


HDR_U16 = [4, 6, 24, 26, 28, 30, 32, 34, 36, 38]


def mutate_pass(r, b, base):
    """-> (base, bytes): a mutation that aims at the header numbers, the array lengths and the code pointers"""
    b = bytearray(b)
    k = r.random()
    if k < 0.12 and len(b) > 1:
        b = b[: r.randrange(0, len(b))]                                  # truncation
    elif k < 0.45 and len(b) >= 40:
        o = r.choice(HDR_U16)
        v = struct.unpack(">H", b[o:o + 2])[0]
        nv = r.choice([0, 1, v + 1, max(0, v - 1), 0x7FFF, 0x8000, 0xFFFF, r.randrange(65536)]) & 0xFFFF
        b[o:o + 2] = struct.pack(">H", nv)
    elif k < 0.6 and len(b) >= 40:
        o = r.choice([8, 12, 16])                                        # the three code pointers
        v = struct.unpack(">I", b[o:o + 4])[0]
        nv = r.choice([v + 1, max(0, v - 1), 0, 0xFFFFFFFF, v + r.randrange(-8, 9) & 0xFFFFFFFF, r.randrange(1 << 32)]) & 0xFFFFFFFF
        b[o:o + 4] = struct.pack(">I", nv)
    elif k < 0.7 and len(b) >= 40:
        b[0] = r.choice([0, 1, 7, 8, 0x18, 0x20, 0x3F, 0xFF, r.randrange(256)])    # flags
        if r.random() < 0.5:
            b[1] = r.choice([0, 1, 255])
    elif k < 0.8:
        base = r.choice([0, 1, base + 1, max(0, base - 1), base + r.randrange(1, 64), 0xFFFFFFFF, r.randrange(1 << 32)])
    elif k < 0.9 and len(b) > 40:
        for _ in range(r.randrange(1, 4)):
            i = r.randrange(40, len(b))
            b[i] = r.choice([0, 1, 0xFF, b[i] ^ (1 << r.randrange(8))])
    elif k < 0.95 and len(b) >= 40:
        # the two pre-context bounds (behind the range records, the rule-map offsets and the rule map)
        nr, nsu = struct.unpack(">H", b[32:34])[0], struct.unpack(">H", b[28:30])[0]
        o = 40 + nr * 6 + nsu * 2
        if o + 2 <= len(b):
            o += 2 + 2 * struct.unpack(">H", b[o:o + 2])[0]
            if o + 2 <= len(b):
                b[o], b[o + 1] = r.choice([(1, 0), (2, 1), (0, 255), (255, 0), (b[o + 1], b[o])])
    else:
        b += bytes(r.randrange(256) for _ in range(r.randrange(1, 16)))
    return base, bytes(b)


def pass_pool(r, fonts_dir, nsynth=30):
    """[(subtable base, pass bytes)] from the shipped fonts with an uncompressed Silf table and from synthesised fonts"""
    import sfnt
    import fontsynth
    pool = []
    for f in ["Padauk.ttf", "Scheherazadegr.ttf", "general.ttf", "MagyarLinLibertineG.ttf", "Annapurnarc2.ttf", "charis_r_gr.ttf", "grtest1gr.ttf", "small.ttf"]:
        try:
            pool += [x for x in silf_passes(sfnt.read_tables(fonts_dir / f)["Silf"]) if len(x[1]) < 9000]
        except Exception:
            pass
    for k in range(nsynth):
        data, _ = fontsynth.gen_font(r, rtl=bool(k % 2))
        pool += silf_passes(sfnt.read_tables(data)["Silf"])
    return pool

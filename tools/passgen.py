"""Pass sub-tables for the loader checks (C01): taken out of shipped and synthesised fonts, and mutated."""
import struct


def silf_passes(silf):
    """[(subtable_base, pass bytes)] of the first Silf sub-table of an uncompressed Silf table (versions 2..5); [] if the table
    cannot be walked"""
    try:
        version = struct.unpack(">I", silf[0:4])[0]
        p = 4
        if version >= 0x00030000:
            p += 4
        nsub = struct.unpack(">H", silf[p:p + 2])[0]
        p += 4
        if nsub < 1:
            return []
        off = struct.unpack(">I", silf[p:p + 4])[0]
        end = struct.unpack(">I", silf[p + 4:p + 8])[0] if nsub > 1 else len(silf)
        sub = silf[off:end]
        q = 0
        if version >= 0x00030000:
            q += 4 + 2 + 2              # ruleVersion, passOffset, pseudosOffset
        q += 2 + 2 + 2                  # maxGlyph, extraAscent, extraDescent
        npasses = sub[q]
        q += 1 + 4 + 1 + 2 + 4 + 1      # passes; iSubst iPos iJust iBidi; flags; maxPre maxPost; 4 attrs; attrSkipPasses
        njl = sub[q]
        q += 1 + 8 * njl
        q += 2 + 1 + 1 + 1 + 1 + 3      # numLigComp, numUserDefn, maxCompPerLig, direction, attCollisions, reserved x3
        ncrit = sub[q]
        q += 1 + 2 * ncrit + 1
        nscript = sub[q]
        q += 1 + 4 * nscript + 2
        offs = [struct.unpack(">I", sub[q + 4 * i:q + 4 * i + 4])[0] for i in range(npasses + 1)]
        out = []
        for i in range(npasses):
            if 0 <= offs[i] <= offs[i + 1] <= len(sub):
                out.append((offs[i], sub[offs[i]:offs[i + 1]]))
        return out
    except Exception:
        return []


HDR_U16 = [4, 6, 24, 26, 28, 30, 32, 34, 36, 38]


def mutate_pass(r, b, base):
    """-> (base, bytes): a mutation that aims at the header numbers, the array lengths and the code pointers"""
    b = bytearray(b)
    k = r.random()
    if k < 0.12 and len(b) > 1:
        b = b[: r.randrange(0, len(b))]                                  # truncation
    elif k < 0.45 and len(b) >= 40:
        o = r.choice(HDR_U16)
        v = struct.unpack(">H", b[o:o + 2])[0]
        nv = r.choice([0, 1, v + 1, max(0, v - 1), 0x7FFF, 0x8000, 0xFFFF, r.randrange(65536)]) & 0xFFFF
        b[o:o + 2] = struct.pack(">H", nv)
    elif k < 0.6 and len(b) >= 40:
        o = r.choice([8, 12, 16])                                        # the three code pointers
        v = struct.unpack(">I", b[o:o + 4])[0]
        nv = r.choice([v + 1, max(0, v - 1), 0, 0xFFFFFFFF, v + r.randrange(-8, 9) & 0xFFFFFFFF, r.randrange(1 << 32)]) & 0xFFFFFFFF
        b[o:o + 4] = struct.pack(">I", nv)
    elif k < 0.7 and len(b) >= 40:
        b[0] = r.choice([0, 1, 7, 8, 0x18, 0x20, 0x3F, 0xFF, r.randrange(256)])    # flags
        if r.random() < 0.5:
            b[1] = r.choice([0, 1, 255])
    elif k < 0.8:
        base = r.choice([0, 1, base + 1, max(0, base - 1), base + r.randrange(1, 64), 0xFFFFFFFF, r.randrange(1 << 32)])
    elif k < 0.9 and len(b) > 40:
        for _ in range(r.randrange(1, 4)):
            i = r.randrange(40, len(b))
            b[i] = r.choice([0, 1, 0xFF, b[i] ^ (1 << r.randrange(8))])
    elif k < 0.95 and len(b) >= 40:
        # the two pre-context bounds (behind the range records, the rule-map offsets and the rule map)
        nr, nsu = struct.unpack(">H", b[32:34])[0], struct.unpack(">H", b[28:30])[0]
        o = 40 + nr * 6 + nsu * 2
        if o + 2 <= len(b):
            o += 2 + 2 * struct.unpack(">H", b[o:o + 2])[0]
            if o + 2 <= len(b):
                b[o], b[o + 1] = r.choice([(1, 0), (2, 1), (0, 255), (255, 0), (b[o + 1], b[o])])
    else:
        b += bytes(r.randrange(256) for _ in range(r.randrange(1, 16)))
    return base, bytes(b)


def pass_pool(r, fonts_dir, nsynth=30):
    """[(subtable base, pass bytes)] from the shipped fonts with an uncompressed Silf table and from synthesised fonts"""
    import sfnt
    import fontsynth
    pool = []
    for f in ["Padauk.ttf", "Scheherazadegr.ttf", "general.ttf", "MagyarLinLibertineG.ttf", "Annapurnarc2.ttf", "charis_r_gr.ttf", "grtest1gr.ttf", "small.ttf"]:
        try:
            pool += [x for x in silf_passes(sfnt.read_tables(fonts_dir / f)["Silf"]) if len(x[1]) < 9000]
        except Exception:
            pass
    for k in range(nsynth):
        data, _ = fontsynth.gen_font(r, rtl=bool(k % 2))
        pool += silf_passes(sfnt.read_tables(data)["Silf"])
    return pool


def gen_classmap(r):
    """-> (wide, class-map bytes, probes): a well-formed class map (linear classes, then look-up classes with search headers and
    sorted (glyph, index) pairs), usually mutated in the numbers `Silf::readClassMap` computes with"""
    wide = r.random() < 0.4
    nlin = r.randrange(0, 5)
    nnon = r.randrange(0, 4)
    classes = []
    for _ in range(nlin):
        classes.append([r.randrange(0, 40) for _ in range(r.randrange(0, 6))])
    gids_seen = [g for c in classes for g in c]
    for _ in range(nnon):
        n = r.randrange(1, 7)
        gids = sorted(r.sample(range(0, 60), n))
        gids_seen += gids
        sr = 1
        while sr * 2 <= n:
            sr *= 2
        body = [n, sr, sr.bit_length() - 1, n - sr]
        for k, g in enumerate(gids):
            body += [g, r.randrange(0, n) if r.random() < 0.2 else k]
        classes.append(body)
    ncls = nlin + nnon
    sz = 4 if wide else 2
    clsoff = 4 + sz * (ncls + 1)
    offs, data = [], []
    for c in classes:
        offs.append(clsoff + 2 * len(data))
        data += c
    offs.append(clsoff + 2 * len(data))
    k = r.random()
    if k < 0.5:
        m = r.random()
        if m < 0.2 and offs:
            i = r.randrange(len(offs))
            offs[i] = max(0, offs[i] + r.choice([-4, -2, -1, 1, 2, 4, 100, -100]))
        elif m < 0.35:
            nlin = max(0, nlin + r.choice([-1, 1, 2]))
        elif m < 0.5:
            ncls = max(0, ncls + r.choice([-1, 1, 3]))
        elif m < 0.75 and data:
            i = r.randrange(len(data))
            data[i] = r.choice([0, 1, data[i] + 1, max(0, data[i] - 1), 0xFFFF, r.randrange(65536)])
        elif m < 0.85 and offs:
            offs[0] = r.choice([0, 4, offs[0] + 2, offs[0] + 65536 if wide else (offs[0] + 2) & 0xFFFF])
        else:
            data = data[: r.randrange(0, len(data) + 1)]
    pk = (lambda x: struct.pack(">I", x & 0xFFFFFFFF)) if wide else (lambda x: struct.pack(">H", x & 0xFFFF))
    b = struct.pack(">HH", ncls & 0xFFFF, nlin & 0xFFFF) + b"".join(pk(o) for o in offs) + b"".join(struct.pack(">H", v & 0xFFFF) for v in data)
    if r.random() < 0.15:
        b = b[: r.randrange(0, len(b) + 1)]
    if r.random() < 0.1:
        b += bytes(r.randrange(256) for _ in range(r.randrange(1, 9)))
    probes = []
    for _ in range(12):
        cid = r.randrange(0, max(1, ncls) + 2)
        x = r.choice(gids_seen) if gids_seen and r.random() < 0.6 else r.randrange(0, 64)
        probes.append("%d.%d" % (cid, x))
    return wide, b, ",".join(probes)

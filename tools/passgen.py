"""Pass sub-tables for the loader checks (C01): taken out of shipped and synthesised fonts, and mutated."""
import struct


def silf_passes(silf):
    """[(subtable_base, pass bytes)] of the first Silf sub-table of an uncompressed Silf table (versions 2..5); [] if the table
    cannot be walked"""
    try:
        version = struct.unpack(">I", silf[0:4])[0]
        p = 4
        if version >= 0x00030000:
            p += 4
        nsub = struct.unpack(">H", silf[p:p + 2])[0]
        p += 4
        if nsub < 1:
            return []
        off = struct.unpack(">I", silf[p:p + 4])[0]
        end = struct.unpack(">I", silf[p + 4:p + 8])[0] if nsub > 1 else len(silf)
        sub = silf[off:end]
        q = 0
        if version >= 0x00030000:
            q += 4 + 2 + 2              # ruleVersion, passOffset, pseudosOffset
        q += 2 + 2 + 2                  # maxGlyph, extraAscent, extraDescent
        npasses = sub[q]
        q += 1 + 4 + 1 + 2 + 4 + 1      # passes; iSubst iPos iJust iBidi; flags; maxPre maxPost; 4 attrs; attrSkipPasses
        njl = sub[q]
        q += 1 + 8 * njl
        q += 2 + 1 + 1 + 1 + 1 + 3      # numLigComp, numUserDefn, maxCompPerLig, direction, attCollisions, reserved x3
        ncrit = sub[q]
        q += 1 + 2 * ncrit + 1
        nscript = sub[q]
        q += 1 + 4 * nscript + 2
        offs = [struct.unpack(">I", sub[q + 4 * i:q + 4 * i + 4])[0] for i in range(npasses + 1)]
        out = []
        for i in range(npasses):
            if 0 <= offs[i] <= offs[i + 1] <= len(sub):
                out.append((offs[i], sub[offs[i]:offs[i + 1]]))
        return out
    except Exception:
        return []


HDR_U16 = [4, 6, 24, 26, 28, 30, 32, 34, 36, 38]


def mutate_pass(r, b, base):
    """-> (base, bytes): a mutation that aims at the header numbers, the array lengths and the code pointers"""
    b = bytearray(b)
    k = r.random()
    if k < 0.12 and len(b) > 1:
        b = b[: r.randrange(0, len(b))]                                  # truncation
    elif k < 0.45 and len(b) >= 40:
        o = r.choice(HDR_U16)
        v = struct.unpack(">H", b[o:o + 2])[0]
        nv = r.choice([0, 1, v + 1, max(0, v - 1), 0x7FFF, 0x8000, 0xFFFF, r.randrange(65536)]) & 0xFFFF
        b[o:o + 2] = struct.pack(">H", nv)
    elif k < 0.6 and len(b) >= 40:
        o = r.choice([8, 12, 16])                                        # the three code pointers
        v = struct.unpack(">I", b[o:o + 4])[0]
        nv = r.choice([v + 1, max(0, v - 1), 0, 0xFFFFFFFF, v + r.randrange(-8, 9) & 0xFFFFFFFF, r.randrange(1 << 32)]) & 0xFFFFFFFF
        b[o:o + 4] = struct.pack(">I", nv)
    elif k < 0.7 and len(b) >= 40:
        b[0] = r.choice([0, 1, 7, 8, 0x18, 0x20, 0x3F, 0xFF, r.randrange(256)])    # flags
        if r.random() < 0.5:
            b[1] = r.choice([0, 1, 255])
    elif k < 0.8:
        base = r.choice([0, 1, base + 1, max(0, base - 1), base + r.randrange(1, 64), 0xFFFFFFFF, r.randrange(1 << 32)])
    elif k < 0.9 and len(b) > 40:
        for _ in range(r.randrange(1, 4)):
            i = r.randrange(40, len(b))
            b[i] = r.choice([0, 1, 0xFF, b[i] ^ (1 << r.randrange(8))])
    elif k < 0.95 and len(b) >= 40:
        # the two pre-context bounds (behind the range records, the rule-map offsets and the rule map)
        nr, nsu = struct.unpack(">H", b[32:34])[0], struct.unpack(">H", b[28:30])[0]
        o = 40 + nr * 6 + nsu * 2
        if o + 2 <= len(b):
            o += 2 + 2 * struct.unpack(">H", b[o:o + 2])[0]
            if o + 2 <= len(b):
                b[o], b[o + 1] = r.choice([(1, 0), (2, 1), (0, 255), (255, 0), (b[o + 1], b[o])])
    else:
        b += bytes(r.randrange(256) for _ in range(r.randrange(1, 16)))
    return base, bytes(b)


def pass_pool(r, fonts_dir, nsynth=30):
    """[(subtable base, pass bytes)] from the shipped fonts with an uncompressed Silf table and from synthesised fonts"""
    import sfnt
    import fontsynth
    pool = []
    for f in ["Padauk.ttf", "Scheherazadegr.ttf", "general.ttf", "MagyarLinLibertineG.ttf", "Annapurnarc2.ttf", "charis_r_gr.ttf", "grtest1gr.ttf", "small.ttf"]:
        try:
            pool += [x for x in silf_passes(sfnt.read_tables(fonts_dir / f)["Silf"]) if len(x[1]) < 9000]
        except Exception:
            pass
    for k in range(nsynth):
        data, _ = fontsynth.gen_font(r, rtl=bool(k % 2))
        pool += silf_passes(sfnt.read_tables(data)["Silf"])
    return pool


def gen_classmap(r):
    """-> (wide, class-map bytes, probes): a well-formed class map (linear classes, then look-up classes with search headers and
    sorted (glyph, index) pairs), usually mutated in the numbers `Silf::readClassMap` computes with"""
    wide = r.random() < 0.4
    nlin = r.randrange(0, 5)
    nnon = r.randrange(0, 4)
    classes = []
    for _ in range(nlin):
        classes.append([r.randrange(0, 40) for _ in range(r.randrange(0, 6))])
    gids_seen = [g for c in classes for g in c]
    for _ in range(nnon):
        n = r.randrange(1, 7)
        gids = sorted(r.sample(range(0, 60), n))
        gids_seen += gids
        sr = 1
        while sr * 2 <= n:
            sr *= 2
        body = [n, sr, sr.bit_length() - 1, n - sr]
        for k, g in enumerate(gids):
            body += [g, r.randrange(0, n) if r.random() < 0.2 else k]
        classes.append(body)
    ncls = nlin + nnon
    sz = 4 if wide else 2
    clsoff = 4 + sz * (ncls + 1)
    offs, data = [], []
    for c in classes:
        offs.append(clsoff + 2 * len(data))
        data += c
    offs.append(clsoff + 2 * len(data))
    k = r.random()
    if k < 0.5:
        m = r.random()
        if m < 0.2 and offs:
            i = r.randrange(len(offs))
            offs[i] = max(0, offs[i] + r.choice([-4, -2, -1, 1, 2, 4, 100, -100]))
        elif m < 0.35:
            nlin = max(0, nlin + r.choice([-1, 1, 2]))
        elif m < 0.5:
            ncls = max(0, ncls + r.choice([-1, 1, 3]))
        elif m < 0.75 and data:
            i = r.randrange(len(data))
            data[i] = r.choice([0, 1, data[i] + 1, max(0, data[i] - 1), 0xFFFF, r.randrange(65536)])
        elif m < 0.85 and offs:
            offs[0] = r.choice([0, 4, offs[0] + 2, offs[0] + 65536 if wide else (offs[0] + 2) & 0xFFFF])
        else:
            data = data[: r.randrange(0, len(data) + 1)]
    pk = (lambda x: struct.pack(">I", x & 0xFFFFFFFF)) if wide else (lambda x: struct.pack(">H", x & 0xFFFF))
    b = struct.pack(">HH", ncls & 0xFFFF, nlin & 0xFFFF) + b"".join(pk(o) for o in offs) + b"".join(struct.pack(">H", v & 0xFFFF) for v in data)
    if r.random() < 0.15:
        b = b[: r.randrange(0, len(b) + 1)]
    if r.random() < 0.1:
        b += bytes(r.randrange(256) for _ in range(r.randrange(1, 9)))
    probes = []
    for _ in range(12):
        cid = r.randrange(0, max(1, ncls) + 2)
        x = r.choice(gids_seen) if gids_seen and r.random() < 0.6 else r.randrange(0, 64)
        probes.append("%d.%d" % (cid, x))
    return wide, b, ",".join(probes)


# ---------------------------------------------------------------------------------------------------------------------------
# whole Silf tables and sub-tables (Face::readGraphite, Silf::readGraphite)

def silf_anatomy(silf):
    """where the numbers of an uncompressed Silf table (versions 2..5) are: {"version", "base", "nsub", "subs": [(off, end)],
    "fields": [(name, absolute offset, size)] of the first sub-table}; None if the table cannot be walked"""
    try:
        version = struct.unpack(">I", silf[0:4])[0]
        p = 4
        if version >= 0x00030000:
            p += 4
        nsub = struct.unpack(">H", silf[p:p + 2])[0]
        base = p + 4
        if nsub < 1:
            return None
        offs = [struct.unpack(">I", silf[base + 4 * i:base + 4 * i + 4])[0] for i in range(nsub)] + [len(silf)]
        subs = [(offs[i], offs[i + 1]) for i in range(nsub)]
        off, end = subs[0]
        sub = silf[off:end]
        fields = []
        q = 0
        if version >= 0x00030000:
            q += 8
        for name, sz in (("maxGlyph", 2), ("extraAscent", 2), ("extraDescent", 2), ("numPasses", 1), ("sPass", 1), ("pPass", 1), ("jPass", 1),
                         ("bPass", 1), ("flags", 1), ("maxPre", 1), ("maxPost", 1), ("aPseudo", 1), ("aBreak", 1), ("aBidi", 1), ("aMirror", 1),
                         ("aPassBits", 1), ("numJusts", 1)):
            fields.append((name, off + q, sz))
            q += sz
        npasses = sub[fields[3][1] - off]
        q += 8 * sub[q - 1]
        for name, sz in (("aLig", 2), ("aUser", 1), ("iMaxComp", 1), ("dir", 1), ("aCollision", 1), ("res1", 1), ("res2", 1), ("res3", 1), ("numCrit", 1)):
            fields.append((name, off + q, sz))
            q += sz
        q += 2 * sub[q - 1] + 1
        fields.append(("numScript", off + q, 1))
        q += 1 + 4 * sub[q]
        fields.append(("gEndLine", off + q, 2))
        q += 2
        for i in range(npasses + 1):
            fields.append(("oPass%d" % i, off + q, 4))
            q += 4
        fields.append(("numPseudo", off + q, 2))
        npseudo = struct.unpack(">H", sub[q:q + 2])[0]
        q += 8 + 6 * npseudo
        fields.append(("nClass", off + q, 2))
        fields.append(("nLinear", off + q + 2, 2))
        if q + 4 > len(sub):
            return None
        return {"version": version, "base": base, "nsub": nsub, "subs": subs, "fields": fields}
    except Exception:
        return None


def _tweak(r, v, size):
    top = (1 << (8 * size)) - 1
    return r.choice([0, 1, v + 1, max(0, v - 1), v + 2, top, top - 1, top // 2, top // 2 + 1, 128, 129, 127, 255 & top, r.randrange(top + 1),
                     v + r.randrange(-8, 9)]) & top


def mutate_silf(r, silf, an):
    """-> bytes: a mutation of a whole Silf table that aims at the numbers Face::readGraphite and Silf::readGraphite compute with"""
    b = bytearray(silf)
    k = r.random()
    if k < 0.45:
        for _ in range(1 if r.random() < 0.7 else 2):
            name, o, sz = r.choice(an["fields"])
            v = int.from_bytes(b[o:o + sz], "big")
            b[o:o + sz] = _tweak(r, v, sz).to_bytes(sz, "big")
    elif k < 0.6:
        # truncation, preferably near where a structure ends
        cuts = [o + sz for _, o, sz in an["fields"]] + [o for _, o, sz in an["fields"]] + [e for _, e in an["subs"]]
        c = r.choice(cuts) + r.choice([0, 0, 1, -1, 2, -2, 4, 8]) if r.random() < 0.8 else r.randrange(0, len(b) + 1)
        b = b[: max(0, min(len(b), c))]
    elif k < 0.7:
        # the number of sub-tables and their offsets
        p = an["base"] - 4
        m = r.random()
        if m < 0.4:
            b[p:p + 2] = struct.pack(">H", r.choice([0, 2, 3, 5, 0xFFFF, 256, an["nsub"] + 1]))
        elif m < 0.7:
            o = an["base"]
            v = struct.unpack(">I", b[o:o + 4])[0]
            b[o:o + 4] = struct.pack(">I", _tweak(r, v, 4))
        else:
            b[0:4] = struct.pack(">I", r.choice([0x00010000, 0x0001FFFF, 0x00020000, 0x00030000, 0x00040000, 0x00040001, 0x0005FFFF & 0x0004FFFF, 0x00060000, 0xFFFFFFFF]))
    elif k < 0.8 and an["nsub"] == 1:
        # the same sub-table two or three times, one behind the other: the loop over the sub-tables
        off, end = an["subs"][0]
        n = r.choice([2, 2, 3])
        sub = bytes(b[off:end])
        hdr = bytearray(b[: an["base"]])
        hdr[an["base"] - 4: an["base"] - 2] = struct.pack(">H", n)
        first = an["base"] + 4 * n
        offs = [first + i * len(sub) for i in range(n)]
        if r.random() < 0.3:
            i = r.randrange(n)
            offs[i] = max(0, offs[i] + r.choice([-1, 1, len(sub), -len(sub), 20, -20]))
        # the pass offsets inside a sub-table are relative to the sub-table: copies stay valid
        b = hdr + b"".join(struct.pack(">I", o & 0xFFFFFFFF) for o in offs) + sub * n
        if r.random() < 0.2:
            b = b[: len(b) - r.randrange(1, len(sub))]
    elif k < 0.92:
        off, end = an["subs"][0]
        for _ in range(r.randrange(1, 4)):
            i = off + r.randrange(0, min(end - off, 120))
            if i < len(b):
                b[i] = r.choice([0, 1, 0xFF, b[i] ^ (1 << r.randrange(8)), r.randrange(256)])
    else:
        # a tiny table: header and a sub-table cut to a few dozen bytes
        off, end = an["subs"][0]
        n = r.randrange(0, 64)
        b = b[: an["base"] + 4] + b[off: off + n]
        b[an["base"]: an["base"] + 4] = struct.pack(">I", r.choice([an["base"] + 4, 0, an["base"], 8, 12]))
    return bytes(b)


def silf_pool(r, fonts_dir, nsynth, big=False):
    """[(font path, Silf table bytes, anatomy)]: shipped fonts with a small uncompressed Silf table and synthesised fonts (written
    to `scratch` by the caller)"""
    import sfnt
    names = ["general.ttf", "grtest1gr.ttf", "small.ttf", "PigLatinBenchmark_v3.ttf", "Charis5_eursub.ttf"]
    if big:
        names += ["Annapurnarc2.ttf", "Padauk.ttf"]
    pool = []
    for f in names:
        try:
            s = sfnt.read_tables(fonts_dir / f)["Silf"]
            an = silf_anatomy(s)
            if an:
                pool.append((str(fonts_dir / f), s, an))
        except Exception:
            pass
    return pool


# ---------------------------------------------------------------------------------------------------------------------------
# bytecode (Machine::Code's loading constructor)

def pass_codes(pb):
    """[(is_constraint, pre_context, rule_length, bytecode)] of a well-formed pass: the pass constraint, and per rule its
    constraint and action code; [] if the pass cannot be walked"""
    try:
        nrules = struct.unpack(">H", pb[4:6])[0]
        nstates, ntrans, nsucc, ncols, nranges = struct.unpack(">5H", pb[24:34])
        p = 40 + nranges * 6
        p += (nsucc + 1) * 2
        nent = struct.unpack(">H", pb[p - 2:p])[0]
        p += nent * 2
        minpre, maxpre = pb[p], pb[p + 1]
        p += 2 + (maxpre - minpre + 1) * 2
        sort = [struct.unpack(">H", pb[p + 2 * i:p + 2 * i + 2])[0] for i in range(nrules)]
        p += 2 * nrules
        pre = list(pb[p:p + nrules])
        p += nrules + 1
        pclen = struct.unpack(">H", pb[p:p + 2])[0]
        p += 2
        oc = [struct.unpack(">H", pb[p + 2 * i:p + 2 * i + 2])[0] for i in range(nrules + 1)]
        p += 2 * (nrules + 1)
        oa = [struct.unpack(">H", pb[p + 2 * i:p + 2 * i + 2])[0] for i in range(nrules + 1)]
        p += 2 * (nrules + 1)
        p += ntrans * ncols * 2 + 1
        pc = pb[p:p + pclen]
        p += pclen
        rc = pb[p:p + oc[nrules]]
        p += oc[nrules]
        ac = pb[p:p + oa[nrules]]
        out = []
        if pclen and nrules:
            out.append((True, pre[0], sort[0], pc))
        # a rule's constraint runs from its offset to the next non-zero one (0 = no constraint); actions likewise
        for i in range(nrules):
            if oc[i] or i == 0:
                e = next((oc[j] for j in range(i + 1, nrules + 1) if oc[j]), oc[nrules])
                if oc[i] < e and (oc[i] or i == 0) and oc[i] != 0:
                    out.append((True, pre[i], sort[i], rc[oc[i]:e]))
            e = oa[i + 1]
            if oa[i] < e:
                out.append((False, pre[i], sort[i], ac[oa[i]:e]))
        return [c for c in out if 0 < len(c[3]) < 600]
    except Exception:
        return []


# opcode -> parameter bytes (255 = variable)
PARAMS = {0: 0, 1: 1, 2: 1, 3: 2, 4: 2, 5: 4, 25: 0, 26: 1, 27: 0, 28: 1, 29: 3, 30: 1, 31: 0, 32: 0, 33: 255, 34: 2, 35: 1, 36: 1, 37: 1, 38: 1, 39: 2, 40: 2,
          41: 2, 42: 3, 43: 2, 44: 2, 45: 3, 46: 3, 47: 3, 48: 0, 49: 0, 50: 0, 51: 2, 52: 2, 53: 2, 54: 1, 55: 0, 56: 5, 57: 0, 58: 0, 59: 2, 60: 3, 61: 3, 65: 4, 66: 2}


def gen_code(r, lims):
    """-> (is_constraint, passtype, pre_context, rule_length, bytecode): a random program that mostly passes the loader's tests
    (stack depth kept, slot references inside the rule, numbers below the limits `lims` = (classes, gattrs, feats, user)), with
    boundary values mixed in"""
    classes, gattrs, feats, user = lims
    if r.random() < 0.06:
        # long runs of the opcodes that move the loader's slot cursor and output length: INSERT xN (the cursor stays at -1, the
        # output length grows), then NEXT xM / DELETE and NEXT alternating – far more than a rule has slots
        rl = r.choice([1, 2, 5, 63])
        pre = r.randrange(0, rl)
        n, m = r.choice([(3, 5), (70, 70), (300, 300), (300, 64), (0, 70), (260, 258)])
        body = bytes([31] * n + [25] * m) if r.random() < 0.7 else bytes([31] * n + [25, 32] * (m // 2) + [25] * 3)
        return False, r.choice([1, 2, 2]), pre, rl, body + bytes([49])
    cons = r.random() < 0.35
    pt = r.choice([1, 2, 2, 3, 3, 4])
    rl = r.choice([1, 2, 3, 4, 6, 10, 63]) if r.random() < 0.95 else r.choice([0, 64, 255, 300])
    pre = (r.randrange(0, rl) if rl and r.random() < 0.9 else r.choice([0, rl, rl + 1, 255])) & 255
    out = bytearray()
    depth = 0
    slot = 0                       # current slot relative to the first slot of the rule (actions)

    def ref():
        if r.random() < 0.85 and rl:
            lo, hi = (-pre, 0) if cons else (-(slot + pre), rl - 1 - slot - pre)
            v = r.randint(min(lo, hi), max(lo, hi)) if lo <= hi else 0
        else:
            v = r.choice([-128, 127, 1, -1, rl, rl - pre, -pre - 1, rl - pre - slot])
        return v & 255

    def below(n, wide=False):
        top = 65535 if wide else 255
        if n and r.random() < 0.85:
            return r.randrange(0, min(n, top + 1))
        return min(top, r.choice([n, n + 1, max(0, n - 1), top, 0]))

    def attr():
        return r.choice([0, 1, 5, 7, 14, 15, 16, 20, 29, 30, 31, 40, 54, 55, 56, 57, 60, 77, 78, 79, 255]) if r.random() < 0.3 else r.randrange(0, 30)

    n = r.randrange(1, 14)
    for _ in range(n):
        k = r.random()
        if k < 0.25:
            v = r.choice([1, 2, 3, 4, 5, 54, 55])
            out.append(v)
            out += bytes(r.randrange(256) for _ in range(PARAMS[v]))
            depth += 1
        elif k < 0.37:
            if depth >= 2 or r.random() < 0.1:
                out.append(r.choice([6, 7, 8, 9, 10, 11, 16, 17, 19, 20, 21, 22, 23, 24, 62, 63]))
                depth -= 1
            elif depth >= 1:
                out.append(r.choice([12, 13, 14, 18, 64]))
        elif k < 0.5:
            v = r.choice([40, 41, 42, 43, 44, 45, 46, 60, 61])
            out.append(v)
            if v == 40:
                out += bytes([attr(), ref()])
            elif v in (41, 44):
                out += bytes([below(gattrs), ref()])
            elif v in (42, 45):
                out += bytes([below(12), ref(), r.randrange(256)])
            elif v == 43:
                out += bytes([below(feats), ref()])
            elif v == 46:
                a = r.choice([55, 15, 55, 3, 56])
                out += bytes([a, ref(), below(user if a == 55 else 255 if a == 15 else 1)])
            else:
                g = below(gattrs, True)
                out += bytes([g >> 8, g & 255, ref()])
            depth += 1
        elif cons:
            if k < 0.62:
                body = bytearray()
                for _ in range(r.randrange(0, 4)):
                    v = r.choice([1, 3, 55, 40, 43])
                    body.append(v)
                    body += bytes([attr() if v == 40 else below(feats) if v == 43 else r.randrange(256) for _ in range(1)] + [r.randrange(-2, 3) & 255] * (PARAMS[v] - 1))
                sk = len(body) if r.random() < 0.85 else r.choice([len(body) + 1, max(0, len(body) - 1), 255, 0])
                out += bytes([34, r.randrange(-pre, max(1 - pre, rl - pre)) & 255 if rl and r.random() < 0.9 else r.randrange(256), sk & 255]) + body
        else:
            if k < 0.6:
                out.append(r.choice([25, 25, 27]))
                slot += 1
            elif k < 0.66:
                c = below(classes, True)
                out += bytes([59, c >> 8, c & 255]) if r.random() < 0.7 else bytes([28, below(classes)])
            elif k < 0.72:
                a, b = below(classes, True), below(classes, True)
                out += bytes([56, ref(), a >> 8, a & 255, b >> 8, b & 255]) if r.random() < 0.7 else bytes([29, ref(), below(classes), below(classes)])
            elif k < 0.78:
                out += bytes([30, ref()])
            elif k < 0.83:
                out.append(31)
                slot = max(-1, slot - 1) if r.random() < 0.5 else slot
            elif k < 0.87:
                out.append(32)
            elif k < 0.91:
                m = r.choice([1, 1, 2, 3, 0])
                out += bytes([33, m] + [ref() for _ in range(m)])
            elif k < 0.96:
                if depth >= 1 or r.random() < 0.1:
                    v = r.choice([35, 36, 37, 38])
                    out += bytes([v, attr()])
                    depth -= 1
            else:
                if depth >= 1 or r.random() < 0.1:
                    a = r.choice([55, 15, 55, 3])
                    out += bytes([r.choice([39, 51, 52, 53]), a, below(user if a == 55 else 255 if a == 15 else 1)])
                    depth -= 1
                elif r.random() < 0.5:
                    out += bytes([66, below(feats), ref()])
    t = r.random()
    if t < 0.8:
        if depth >= 1 and r.random() < 0.8:
            out.append(48)
        else:
            out.append(r.choice([49, 50]))
    elif t < 0.9:
        out.append(r.choice([48, 49, 50, 0, 25]))
    m = r.random()
    if m < 0.12 and out:
        i = r.randrange(len(out))
        out[i] = r.choice([r.randrange(256), 67, 68, 26, 47, 57, 58, 34, 33, 255])
    elif m < 0.18 and len(out) > 1:
        out = out[: r.randrange(1, len(out))]
    if not out:
        out.append(49)
    return cons, pt, pre, rl, bytes(out)


# ---------------------------------------------------------------------------------------------------------------------------
# building a pass from rule records (Pass::readRules)

def build_pass(rules, base=0, flags=0, max_loop=5, min_pre=0, max_pre=0, pconstraint=b"", rule_map=None, fix=None):
    """-> pass bytes.  `rules` = [(pre_context, sort_key, constraint bytes, action bytes)]; a two-state machine over one glyph column
    whose success state lists `rule_map` (default: every rule).  `fix(dict of field offsets, bytearray)` may patch the result."""
    n = len(rules)
    rule_map = list(range(n)) if rule_map is None else rule_map
    ranges = struct.pack(">HHH", 0, 0, 0)
    o_rule_map = struct.pack(">HH", 0, len(rule_map))
    rmap = b"".join(struct.pack(">H", x & 0xFFFF) for x in rule_map)
    starts = b"".join(struct.pack(">H", 0) for _ in range(max_pre - min_pre + 1))
    sort = b"".join(struct.pack(">H", r[1] & 0xFFFF) for r in rules)
    pre = bytes(r[0] & 255 for r in rules)
    oc, oa, rc, ac = [], [], b"\0" if any(r[2] for r in rules) else b"", b""
    # constraint offset 0 means "no constraint": real constraint code starts at offset 1
    for r in rules:
        if r[2]:
            oc.append(len(rc))
            rc += r[2]
        else:
            oc.append(0)
        oa.append(len(ac))
        ac += r[3]
    oc.append(len(rc))
    oa.append(len(ac))
    trans = struct.pack(">H", 1)
    body = ranges + o_rule_map + rmap + bytes([min_pre, max_pre]) + starts
    off = {"sort": 40 + len(body)}
    body += sort
    off["pre"] = 40 + len(body)
    body += pre + b"\0" + struct.pack(">H", len(pconstraint))
    off["oc"] = 40 + len(body)
    body += b"".join(struct.pack(">H", x & 0xFFFF) for x in oc)
    off["oa"] = 40 + len(body)
    body += b"".join(struct.pack(">H", x & 0xFFFF) for x in oa)
    body += trans + b"\0"
    pc = base + 40 + len(body)
    rcp = pc + len(pconstraint)
    acp = rcp + len(rc)
    hdr = struct.pack(">BBBBHHIIIIHHHHHHHH", flags, max_loop, 0, 0, n, 0, pc, rcp, acp, 0, 2, 1, 1, 1, 1, 0, 0, 0)
    assert len(hdr) == 40
    b = bytearray(hdr + body + pconstraint + rc + ac)
    if fix:
        fix(off, b)
    return bytes(b)


def gen_rules_pass(r, lims):
    """-> (passtype, sub-table base, pass bytes): a pass built from 1..6 generated rules (codes from `gen_code`, made consistent with the rule's own
    pre-context and length), usually with one of the numbers `Pass::readRules` tests changed: a sort key, a pre-context length, a code
    offset, the pre-context bounds of the pass, a rule-map entry"""
    pt = r.choice([1, 2, 2, 3, 3, 4])
    n = r.randrange(1, 7)
    rules = []
    for _ in range(n):
        for _try in range(20):
            c, _pt, pre, rl, code = gen_code(r, lims)
            if not c and 0 < rl <= 63 and pre < rl:
                break
        else:
            pre, rl, code = 0, 1, bytes([49])
        cons = b""
        if r.random() < 0.5:
            for _try in range(20):
                c, _pt, pre2, rl2, ccode = gen_code(r, lims)
                if c:
                    cons = ccode
                    break
        rules.append((pre, rl, cons, code if r.random() < 0.9 else b""))
    pres = [x[0] for x in rules]
    min_pre, max_pre = min(pres), max(pres)
    pcons = b""
    if r.random() < 0.25:
        for _try in range(20):
            c, _pt, pre2, rl2, ccode = gen_code(r, lims)
            if c:
                pcons = ccode
                break
    k = r.random()

    def fix(off, b):
        m = r.random()
        i = r.randrange(n)
        if m < 0.25:
            o = off["sort"] + 2 * i
            b[o:o + 2] = struct.pack(">H", r.choice([0, 1, 63, 64, 65, 255, 0xFFFF, rules[i][0], rules[i][0] + 1]))
        elif m < 0.45:
            b[off["pre"] + i] = r.choice([0, 1, rules[i][1], max(0, rules[i][1] - 1), 255, max_pre + 1, max(0, min_pre - 1)])
        elif m < 0.75:
            o = off[r.choice(["oc", "oa"])] + 2 * r.randrange(n + 1)
            v = struct.unpack(">H", b[o:o + 2])[0]
            b[o:o + 2] = struct.pack(">H", r.choice([0, 1, v + 1, max(0, v - 1), v + 2, 0xFFFF, r.randrange(0, 40)]) & 0xFFFF)
        elif m < 0.85:
            o = off["sort"] - 2 * (max_pre - min_pre + 1) - 2
            b[o], b[o + 1] = r.choice([(min_pre + 1, max_pre + 1), (min_pre, max(min_pre, max_pre - 1)), (0, 255)]) if min_pre + 1 <= 255 else (0, 255)
        else:
            j = off["sort"] - 2 * (max_pre - min_pre + 1) - 2 - 2 * n + 2 * r.randrange(n)
            b[j:j + 2] = struct.pack(">H", r.choice([n, n + 1, 0xFFFF, 0]))

    base = r.choice([0, 0, 100, 215])
    return pt, base, build_pass(rules, base=base, min_pre=min_pre, max_pre=max_pre, pconstraint=pcons, fix=fix if k < 0.6 else None)


# ---------------------------------------------------------------------------------------------------------------------------
# Gloc / Glat (GlyphCache::Loader, sparse)

def build_glyph_tables(r, nglyphs, version, long_fmt, attribids=False, num_attrs=None, hostile=0.0, no_subboxes=False):
    """-> (Gloc, Glat): `nglyphs` glyphs with a few run-length entries each (and, for version 3, an octabox header with sub-boxes).
    `hostile` is the chance per glyph of an irregular entry: a zero value, a run of 0, keys that go backwards or repeat, a run that
    reaches beyond the glyph's data, a key near 65535, no entry at all"""
    wide = version >= 0x00020000
    glat = bytearray(struct.pack(">I", version))
    if version >= 0x00030000:
        glat += struct.pack(">I", r.choice([0, 1]))
    offs = []
    maxkey = 0
    for g in range(nglyphs):
        offs.append(len(glat))
        if version >= 0x00030000:
            bmap = r.choice([0, 0, 1, 3, 0x8001, 0x00F0, r.randrange(65536)]) if r.random() < 0.5 else 0
            if no_subboxes:
                bmap = 0
            glat += struct.pack(">H", bmap) + bytes(r.randrange(256) for _ in range(4 + 8 * bin(bmap).count("1")))
        key = 0
        nent = r.randrange(1, 4)
        h = r.random() < hostile
        for e in range(nent):
            key += r.randrange(0, 30)
            run = r.randrange(1, 5)
            vals = [r.randrange(1, 65536) for _ in range(run)]
            if h:
                m = r.random()
                if m < 0.15:
                    vals[r.randrange(run)] = 0
                elif m < 0.3:
                    run_field = 0
                elif m < 0.45:
                    key = max(0, key - r.randrange(1, 40))
                elif m < 0.55:
                    key = 65535 - r.randrange(0, 3)
                elif m < 0.7:
                    run += r.randrange(1, 4)          # the run field claims more values than follow
                elif m < 0.8:
                    vals = []
            run_field = locals().get("run_field", run)
            kk = key & (0xFFFF if wide else 0xFF)
            glat += (struct.pack(">HH", kk, run_field & 0xFFFF) if wide else bytes([kk, run_field & 0xFF]))
            glat += b"".join(struct.pack(">H", v) for v in vals)
            if "run_field" in locals():
                del run_field
            key += len(vals)
            maxkey = max(maxkey, key)
        if h and r.random() < 0.15:
            del glat[offs[-1]:]                        # a glyph without data
    offs.append(len(glat))
    na = num_attrs if num_attrs is not None else min(0x3000, max(1, maxkey + 1 + r.randrange(0, 3)))
    flags = (1 if long_fmt else 0) | (2 if attribids else 0)
    gloc = bytearray(struct.pack(">IHH", 0x00010000, flags, na))
    for o in offs:
        gloc += struct.pack(">I", o & 0xFFFFFFFF) if long_fmt else struct.pack(">H", o & 0xFFFF)
    if attribids:
        gloc += b"".join(struct.pack(">H", i) for i in range(na))
    return bytes(gloc), bytes(glat)


def mutate_glyph_tables(r, gloc, glat):
    """-> (Gloc, Glat): one of the numbers `GlyphCache::Loader` computes with changed"""
    gloc = bytearray(gloc)
    glat = bytearray(glat)
    m = r.random()
    if m < 0.12 and len(gloc) > 12:
        # the last glyph's data squeezed against the end of Glat: its start a few bytes before the end, its end the end
        w = 4 if gloc[5] & 1 else 2
        n = (len(gloc) - 8) // w
        if gloc[5] & 2:
            n = max(0, n - int.from_bytes(gloc[6:8], "big") * 2 // w)
        if n >= 2:
            o = 8 + w * (n - 2)
            gloc[o:o + w] = (max(0, len(glat) - r.choice([1, 1, 2, 3, 4, 5, 6, 7, 8])) & ((1 << (8 * w)) - 1)).to_bytes(w, "big")
            gloc[o + w:o + 2 * w] = (len(glat) & ((1 << (8 * w)) - 1)).to_bytes(w, "big")
    elif m < 0.3 and len(gloc) > 8:
        w = 4 if gloc[5] & 1 else 2
        n = (len(gloc) - 8) // w
        if gloc[5] & 2:
            n = max(0, n - int.from_bytes(gloc[6:8], "big") * 2 // w)       # (the attribute-id array is not offsets)
        if n:
            # often one of the last offsets: the last glyphs are the ones whose data ends where the table ends
            o = 8 + w * (r.randrange(n) if r.random() < 0.5 else max(0, n - 1 - r.randrange(0, 3)))
            v = int.from_bytes(gloc[o:o + w], "big")
            nv = r.choice([0, 1, v + 1, max(0, v - 1), v + 2, v + 4, v + 6, len(glat), len(glat) - 1, len(glat) + 1, (1 << (8 * w)) - 1, r.randrange(len(glat) + 2)]) & ((1 << (8 * w)) - 1)
            gloc[o:o + w] = nv.to_bytes(w, "big")
    elif m < 0.45 and len(gloc) >= 8:
        c = r.random()
        if c < 0.3:
            gloc[0:4] = struct.pack(">I", r.choice([0, 0x00010000, 0x0001FFFF, 0x00020000, 0x80000000, 0xFFFFFFFF]))
        elif c < 0.6:
            gloc[4:6] = struct.pack(">H", r.choice([0, 1, 2, 3, 0xFFFF]))
        else:
            gloc[6:8] = struct.pack(">H", r.choice([0, 1, 2, 0x3000, 0x3001, 0xFFFF, r.randrange(1, 200)]))
    elif m < 0.55:
        gloc = gloc[: r.choice([0, 4, 7, 8, 9, 10, 12, max(0, len(gloc) - 1), max(0, len(gloc) - 2), max(0, len(gloc) - 4), r.randrange(len(gloc) + 1)])]
    elif m < 0.65:
        glat = glat[: r.choice([0, 3, 4, 5, 7, 8, max(0, len(glat) - 1), max(0, len(glat) - 2), r.randrange(len(glat) + 1)])]
    elif m < 0.75 and len(glat) >= 4:
        glat[0:4] = struct.pack(">I", r.choice([0x00010000, 0x00020000, 0x00030000, 0x0003FFFF, 0x00040000, 0x80000000, 0xFFFFFFFF, 0]))
    elif len(glat) > 4:
        for _ in range(r.randrange(1, 6)):
            i = r.randrange(4, len(glat))
            glat[i] = r.choice([0, 1, 2, 0xFF, glat[i] ^ (1 << r.randrange(8)), r.randrange(256)])
    # a compressed Glat is another property's subject: keep the scheme bits clear
    if len(glat) >= 8 and int.from_bytes(glat[0:4], "big") >= 0x00030000:
        glat[4] &= 7
    return bytes(gloc), bytes(glat)


# ---------------------------------------------------------------------------------------------------------------------------
# loca / glyf / hmtx (the graphics half of Loader::read_glyph)

def gen_gfx(r):
    """-> (indexToLocFormat, numLongHorMetrics, loca, glyf, hmtx, gids): a small consistent set of tables, usually with an offset, a
    size or a count changed; glyf is absent or at least 10 bytes, hmtx at least 4 (Face::Table hands out nothing else)"""
    n = r.randrange(1, 9)
    long_fmt = r.random() < 0.5
    glyphs = []
    for _ in range(n):
        if r.random() < 0.25:
            glyphs.append(b"")
        else:
            x0, y0 = r.randrange(-300, 300), r.randrange(-300, 300)
            x1, y1 = (x0 + r.randrange(0, 500), y0 + r.randrange(0, 500)) if r.random() < 0.9 else (x0 - 1, y0)
            g = struct.pack(">hhhhh", 1, x0, y0, x1, y1) + bytes(r.randrange(256) for _ in range(r.choice([0, 2, 6])))
            glyphs.append(g + b"\0" * (len(g) % 2))
    offs, glyf = [], b""
    for g in glyphs:
        offs.append(len(glyf))
        glyf += g
    offs.append(len(glyf))
    if len(glyf) < 10:
        glyf += b"\0" * (10 - len(glyf))
    k = r.random()
    if k < 0.35:
        i = r.randrange(len(offs))
        offs[i] = max(0, offs[i] + r.choice([-2, 2, 4, 10, len(glyf), len(glyf) - 10, len(glyf) - 8, -offs[i]]))
    loca = b"".join(struct.pack(">I", o & 0xFFFFFFFF) if long_fmt else struct.pack(">H", (o // 2) & 0xFFFF) for o in offs)
    if k > 0.85:
        loca = loca[: r.randrange(0, len(loca) + 1)]
    if 0.35 <= k < 0.45:
        glyf = glyf[: max(10, r.randrange(10, len(glyf) + 1))]
    nl = r.randrange(0, n + 2)
    hmtx = b"".join(struct.pack(">Hh", r.randrange(0, 2000), r.randrange(-50, 50)) for _ in range(min(nl, n))) + \
        b"".join(struct.pack(">h", r.randrange(-50, 50)) for _ in range(max(0, n - nl)))
    if r.random() < 0.3:
        hmtx = hmtx[: r.randrange(0, len(hmtx) + 1)]
    if len(hmtx) < 4:
        hmtx += b"\0" * (4 - len(hmtx))
    if r.random() < 0.1:
        glyf = b""
    if len(loca) < 4:
        loca += b"\0" * (4 - len(loca))
    gids = list(range(0, n + 2)) + [65535]
    return (1 if long_fmt else 0), nl, loca, glyf, hmtx, gids


def mutate_gfx_tables(r, tabs):
    """tabs: dict of the six graphics tables (bytes); one of them changed in a number the loader looks at, cut short, or removed"""
    tabs = dict(tabs)
    k = r.choice(["head", "head", "hhea", "hmtx", "maxp", "maxp", "glyf", "loca", "loca", "cmap", "cmap"])
    b = bytearray(tabs.get(k, b""))
    m = r.random()
    if m < 0.12:
        b = bytearray()
    elif m < 0.3 and b:
        b = b[: r.choice([0, 3, 4, 9, 10, 31, 32, 35, 36, 53, 54, max(0, len(b) - 1), max(0, len(b) - 2), r.randrange(len(b) + 1)])]
    elif k == "head" and len(b) >= 54:
        o, n = r.choice([(0, 4), (12, 4), (18, 2), (50, 2), (52, 2)])
        v = int.from_bytes(b[o:o + n], "big")
        b[o:o + n] = (r.choice([0, 1, 2, v + 1, 0xFFFF, v ^ 1]) & ((1 << (8 * n)) - 1)).to_bytes(n, "big")
    elif k == "hhea" and len(b) >= 36:
        o, n = r.choice([(0, 4), (32, 2), (34, 2)])
        v = int.from_bytes(b[o:o + n], "big")
        b[o:o + n] = (r.choice([0, 1, v + 1, max(0, v - 1), 0xFFFF, v + 5]) & ((1 << (8 * n)) - 1)).to_bytes(n, "big")
    elif k == "maxp" and len(b) >= 6:
        o, n = r.choice([(0, 4), (4, 2)])
        v = int.from_bytes(b[o:o + n], "big")
        b[o:o + n] = (r.choice([0, 1, v + 1, max(0, v - 1), v + 2, 0xFFFF, v + 50]) & ((1 << (8 * n)) - 1)).to_bytes(n, "big")
    elif k == "cmap" and len(b) >= 12:
        c = r.random()
        n = int.from_bytes(b[2:4], "big")
        if c < 0.25:
            b[0:2] = (r.choice([1, 0xFFFF, 256])).to_bytes(2, "big")
        elif c < 0.45:
            b[2:4] = (r.choice([0, 1, n + 1, max(0, n - 1), 0xFFFF, 100])).to_bytes(2, "big")
        elif n:
            i = r.randrange(n)
            o = 4 + 8 * i
            if o + 8 <= len(b):
                f = r.choice([0, 2, 4])
                w = 4 if f == 4 else 2
                v = int.from_bytes(b[o + f:o + f + w], "big")
                b[o + f:o + f + w] = (r.choice([0, 1, 3, 10, v + 1, max(0, v - 1), len(b), len(b) - 2, len(b) - 4, (1 << (8 * w)) - 1]) & ((1 << (8 * w)) - 1)).to_bytes(w, "big")
    elif k == "loca" and len(b) >= 4:
        w = 4 if (len(tabs.get("head", b"")) >= 52 and tabs["head"][51] == 1) else 2
        n = len(b) // w
        i = (n - 1 - r.randrange(0, 3)) if r.random() < 0.6 else r.randrange(n)
        i = max(0, i)
        v = int.from_bytes(b[i * w:i * w + w], "big")
        gl = len(tabs.get("glyf", b""))
        b[i * w:i * w + w] = (r.choice([0, v + 1, max(0, v - 1), gl // (1 if w == 4 else 2), (gl - 10) // (1 if w == 4 else 2), (gl - 9) // (1 if w == 4 else 2), (1 << (8 * w)) - 1]) & ((1 << (8 * w)) - 1)).to_bytes(w, "big")
    elif b:
        for _ in range(r.randrange(1, 4)):
            i = r.randrange(len(b))
            b[i] = r.choice([0, 1, 0xFF, b[i] ^ (1 << r.randrange(8)), r.randrange(256)])
    tabs[k] = bytes(b)
    return tabs


def mutate_cmap_subtable(r, cmap):
    """a cmap table with the length of its first format 4 subtable made odd or one short - the table cut to match when the subtable
    is its last part -, so that the last entry of the glyph-id array straddles the end (the `offset*2+1 >= length` guard of
    CmapSubtable4Lookup); or the segment count / the last end code changed"""
    b = bytearray(cmap)
    if len(b) < 12 + 16:
        return bytes(b)
    n = int.from_bytes(b[2:4], "big")
    subs = []
    for i in range(min(n, 8)):
        o = 4 + 8 * i
        if o + 8 <= len(b):
            subs.append(int.from_bytes(b[o + 4:o + 8], "big"))
    f4 = [o for o in subs if o + 8 <= len(b) and int.from_bytes(b[o:o + 2], "big") == 4]
    if not f4:
        return bytes(b)
    o = f4[0]
    ln = int.from_bytes(b[o + 2:o + 4], "big")
    k = r.randrange(4)
    if k <= 1 and ln > 17:
        d = r.choice([1, 1, 3])
        b[o + 2:o + 4] = (ln - d).to_bytes(2, "big")
        if o + ln == len(b) and (k == 0 or r.random() < 0.5):
            b = b[:len(b) - d]
    elif k == 2:
        x = int.from_bytes(b[o + 6:o + 8], "big")
        b[o + 6:o + 8] = (r.choice([x + 2, max(0, x - 2), x + 1, 0xFFFE]) & 0xFFFF).to_bytes(2, "big")
    else:
        nseg = int.from_bytes(b[o + 6:o + 8], "big") // 2
        if nseg and o + 14 + 2 * nseg <= len(b):
            b[o + 14 + 2 * (nseg - 1):o + 14 + 2 * nseg] = r.choice([b"\xff\xfe", b"\x00\x00", b"\xff\xff"])
    return bytes(b)


def gen_name_table(r):
    """-> (platform, encoding, table bytes, queries): a name table with Mac and Windows records (sorted as the format wants), usually with
    a count, the string offset, a record's offset or length or the table's length changed"""
    recs = []
    nmac = r.choice([0, 0, 1, 3])
    nwin = r.choice([0, 1, 1, 2, 5, 9])
    strings = bytearray()
    def add(pl, en, lang, nid):
        txt = "".join(r.choice("abcXYZ é") for _ in range(r.randrange(0, 7))).encode("utf-16-be")
        if r.random() < 0.08:
            txt += struct.pack(">H", r.choice([0xD800, 0xDBFF, 0xDC00, 0xDFFF]))
        recs.append([pl, en, lang, nid, len(txt), len(strings)])
        strings.extend(txt)
    for _ in range(nmac):
        add(1, 0, r.choice([0, 1]), r.randrange(256, 260))
    for _ in range(nwin):
        add(3, 1, r.choice([0x409, 0x409, 0x809, 0x40C, 0x0C0C, 0x411]), r.randrange(256, 260))
    if r.random() < 0.2:
        add(3, 10, 0x409, 256)
    recs.sort(key=lambda x: (x[0], x[1], x[2], x[3]))
    count = len(recs)
    off = 6 + 12 * count
    k = r.random()
    if k < 0.15:
        count = max(0, count + r.choice([-1, 1, 2, 100, 0xFFFF - count]))
    elif k < 0.3:
        off = max(0, off + r.choice([-1, -12, 1, 12, 1000, -off]))
    elif k < 0.5 and recs:
        x = r.choice(recs)
        f = r.choice([4, 5])
        x[f] = max(0, x[f] + r.choice([-2, -1, 1, 2, 3, 100, 0xFFFF - x[f]])) & 0xFFFF
    tab = struct.pack(">HHH", 0, count & 0xFFFF, off & 0xFFFF) + b"".join(struct.pack(">6H", *[v & 0xFFFF for v in x]) for x in recs) + bytes(strings)
    if 0.5 <= k < 0.65:
        tab = tab[: r.choice([0, 5, 6, 17, 18, 19, 6 + 12 * len(recs), 6 + 12 * len(recs) + 1, max(0, len(tab) - 1), r.randrange(len(tab) + 1)])]
    qs = [(r.choice([0x409, 0x809, 0x40C, 0x0C0C, 0x411, 0, 1, 0x109]), r.randrange(255, 261)) for _ in range(8)]
    pl, en = r.choice([(3, 1), (3, 1), (3, 1), (1, 0), (3, 10), (0, 3)])
    return pl, en, tab, qs
